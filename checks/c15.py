"""C15: requests that change the workflow are applied atomically."""

from checks import _decl
from sim import monitors as M

PROPERTY = "C15"
ORACLE = "persistent-table snapshot before a rejected request equals the one after it; one transaction per mutating request; a request delivered in full is handled to completion (reply computed, effect committed) although the client died"
DESIGN_REF = "DESIGN.md section 7 (C15)"
RULE = (
    "the C08 declaration-race workload plus requests built to fail late, injected SQL statement "
    "errors ('database or disk is full') at a random statement of a request handler, and client "
    "deaths right after the n-th complete request of a sub-plan was sent, in half of the cases followed by the client's close request (in a quarter of the "
    "scenarios: right after an amend() whose handler waits for a slow hash job). Distinct = distinct "
    "declaration lists + fault plan; non-trivial = at least one request was rejected."
)
ASSUMPTIONS = ["amend_step legitimately uses two transactions when it has to confirm static-tree inputs"]


def gen_scenario(seed, tier="quick", opts=None):
    import random

    from sim.chooser import derive_seed

    sc = _decl.gen_decl_scenario(seed, tier, faults=("client_death", "sql"))
    rng = random.Random(derive_seed(seed, "c15"))
    if rng.random() < 0.25:
        # A sub-plan declares a static tree, amends a file of it as input (the handler then
        # waits for the file's hash job) and dies right after sending that request, while
        # hashing is slow: the handler outlives its client by seconds.
        k = rng.randrange(len(sc["plans"]))
        tree, member = rng.choice([("t/", "t/x.txt"), ("u/", "u/a.txt"), ("t/sub/", "t/sub/z.txt")])
        sc["plans"][k][:0] = [["ignore_errors", [["static", tree]]], ["ignore_errors", [["amend", {"inp": [member]}]]]]
        sc["faults"] = [f for f in sc["faults"] if f["kind"] != "client_death"]
        sc["faults"].append({"kind": "client_death", "plan": k, "after_sends": 2, "goodbye": rng.random() < 0.5})
        sc["schedule"]["profile"] = {"hash.slow": [500]}
    sc["check"] = PROPERTY
    return sc


def _extra(sc, uni, results, res, mons):
    w = uni.world
    # every request that reached the director was handled to completion
    seen_in, seen_out = {}, set()
    for ev in w.log:
        if ev[2] == "rpc_in":
            seen_in[ev[3]] = ev[4]
        elif ev[2] == "rpc_out":
            seen_out.add(ev[3])
    for ev in w.log:
        # a handler that was cancelled did not run to completion either: whatever it had not
        # committed yet is lost although the request was received in full
        if ev[2] == "rpc_out" and ev[5] == "fail" and "Cancelled" in str(ev[6]):
            if len(ev) > 8 and ev[8]:
                # the director itself is shutting down (the build phase is over and its hash
                # jobs are cancelled): not a consequence of the client's disappearance
                res.stats["probe.handler_cancelled_by_director_shutdown"] += 1
                continue
            res.violate("R-atomic/completion", "request-cancelled",
                        f"request {ev[3]}:{ev[4]} was received in full and its handler was cancelled ({ev[6]}: {str(ev[7])[:160]})",
                        "request-cancelled")
    lost = [f"{rid}:{name}" for rid, name in seen_in.items() if rid not in seen_out]
    if lost and all(r.ok for r in results):
        res.violate("R-atomic/completion", "request-not-completed",
                    f"requests received in full but never completed: {lost[:5]}", "request-not-completed")
    # a request sent right before the client died is applied: it shows up as rpc_in after the death
    deaths = [ev for ev in w.log if ev[2] == "fault" and ev[3] == "client_death"]
    for d in deaths:
        after = [ev for ev in w.log[d[0]:] if ev[2] == "rpc_in"]
        if after:
            res.stats["probe.request_handled_after_client_death"] += 1


def run_scenario(sc):
    return _decl.run_decl(sc, (M.AtomicityMonitor,), extra=_extra)


shrink = _decl.shrink_decl
