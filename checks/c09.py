"""C09: the stored workflow satisfies its invariants after every transaction."""

from checks import _mon

PROPERTY = "C09"
ORACLE = "R-inv: graph-wide invariants and per-node transition whitelist at every commit; exception classes of every failed request"
DESIGN_REF = "DESIGN.md section 7 (C09), Appendix A.4"
RULE = (
    "history scenarios (project + 2-5 edit phases incl. deliberately broken ones, restart builds, "
    "seeded schedules, injected step kills/drains/interrupts); the monitor sees the persistent "
    "tables inside every committing transaction. Distinct = distinct scenario rendering + fault "
    "plan; non-trivial = at least two commands ran. One scenario in three is the declaration-race "
    "workload of C08/C15 instead (2-4 concurrent sub-plans issuing valid, conflicting, cyclic and "
    "repeated declarations, client deaths), judged by the same invariant monitor."
)
ASSUMPTIONS = [
    "RUNNING => no stored hash and CHECKING => stored hash are inferred from the dispatch rule, kept because the soak confirms them",
    "the exhaustive small-universe half of the quantifier is model checking and is not attempted",
]


def gen_scenario(seed, tier="quick", opts=None):
    if seed % 3 == 0:
        # the declaration-race workload of C08/C15: concurrent sub-plans issue valid and invalid
        # requests (collisions, cycles, repeated declarations) over a small universe of paths
        from checks import _decl

        sc = _decl.gen_decl_scenario(seed, tier, faults=("client_death",))
        sc["check"] = PROPERTY
        sc["workload"] = "decl"
        return sc
    sc = _mon.gen_monitored(seed, tier, opts, fault_kinds=("kill_step", "drain", "interrupt", "edit_input_during"))
    sc["check"] = PROPERTY
    return sc


def _decl_extra(sc, uni, results, res, mons):
    for r in results:
        if r.exception is not None:
            res.violate("R-inv/serve-exception", "serve-exception",
                        f"serve() raised {type(r.exception).__name__}: {r.exception}", f"serve:{type(r.exception).__name__}")
        for name, level, msg in r.error_records:
            if name.startswith("stepup") and ("onsisten" in msg or "IntegrityError" in msg):
                res.violate("R-inv/error-log", "consistency-error-logged", f"{name}: {msg[:500]}", "error-log")


def _extra(sc, run, res, mons, inj):
    for r in run.results:
        if r.exception is not None:
            res.violate(
                "R-inv/serve-exception",
                "serve-exception",
                f"serve() raised {type(r.exception).__name__}: {r.exception}",
                f"serve:{type(r.exception).__name__}",
            )
        for name, level, msg in r.error_records:
            if name.startswith("stepup") and ("onsisten" in msg or "IntegrityError" in msg):
                res.violate("R-inv/error-log", "consistency-error-logged", f"{name}: {msg[:500]}", "error-log")


def run_scenario(sc):
    if sc.get("workload") == "decl":
        from checks import _decl
        from sim import monitors as M

        return _decl.run_decl(sc, (M.InvariantMonitor, M.ErrorClassMonitor), extra=_decl_extra)
    run, res = _mon.run_monitored(sc, PROPERTY, _extra)
    return res


def shrink(sc):
    if sc.get("workload") == "decl":
        from checks import _decl

        yield from _decl.shrink_decl(sc)
    else:
        yield from _mon.shrink(sc)
