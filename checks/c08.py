"""C08: every path has one owner and conflicts are rejected in either order."""

from checks import _decl
from sim import monitors as M

PROPERTY = "C08"
ORACLE = "R-own invariants after every commit (one owner per path, trees own everything beneath them, no pattern matches a product) + an accepted declaration is in effect and held by its declarer right after its commit + a repeated declaration changes nothing"
DESIGN_REF = "DESIGN.md section 7 (C08), Appendix A.1"
RULE = (
    "a root plan starts 2-4 sub-plans concurrently; each issues 2-7 declarations (static file, "
    "static tree, static pattern, glob, optional step with inp/out/vol, amend) over a small "
    "shared universe of paths incl. upper/lower-case twins, '%', '_', '[', blanks and non-ASCII "
    "names, each wrapped so that a rejection is recorded and the plan carries on; arrival order "
    "is the schedule; a restart replays the declarations against the memories of the first "
    "build. Distinct = distinct declaration lists; non-trivial = at least one request was rejected."
)
ASSUMPTIONS = [
    "because a conflicting pair cannot both be in effect, 'accepted => in effect for the declarer' + the per-commit invariants imply that one of the two is rejected in either order",
]


class RepeatMonitor(M.Monitor):
    """Repeating a declaration by the same creator in the same role is a no-op."""

    name = "repeat"

    def __init__(self):
        super().__init__()
        self.seen = {}

    def on_build_start(self, world):
        self.seen = {}

    def on_request_done(self, world, call, ok, result, txns):
        if call.name not in ("declare_static", "register_glob") or not ok:
            return
        key = (call.name, repr(call.args))
        if key in self.seen and txns and txns[0][0] == "commit":
            # a pattern owns nothing: a second registration row of the same pattern is no claim
            same, why = M.snapshots_equal(txns[0][1], txns[0][2], ignore=("nglob",))
            self.count("repeats_compared")
            if call.name == "declare_static" and not same:
                self.violate("R-own/repeat", "repeat-not-noop", f"repeated {call.name}{call.args[1:]} changed the workflow: {why}", "repeat-not-noop")
        self.seen[key] = True


def gen_scenario(seed, tier="quick", opts=None):
    sc = _decl.gen_decl_scenario(seed, tier)
    sc["check"] = PROPERTY
    return sc


def run_scenario(sc):
    return _decl.run_decl(sc, (M.OwnershipMonitor, RepeatMonitor))


shrink = _decl.shrink_decl
