"""C03: a step only succeeds on inputs that were final while it ran."""

from checks import _mon
from sim.runner import load_known

PROPERTY = "C03"
ORACLE = "command log vs. file-system log vs. recorded digests: start preconditions from ground truth, no input change inside the window of a SUCCEEDED run, every read equals the recorded content"
DESIGN_REF = "DESIGN.md section 7 (C03)"
RULE = (
    "history scenarios biased to amend-before-read, read-then-amend (late) and fan-in with "
    "njob >= 2 in most builds; amend() calls that mix an ordinary input with a file of a static tree; "
    "sleeping steps that create a declared output early with provisional content; timing profiles "
    "(slow hashing, slow launches, slow network); injected fault: the user modifies or deletes an input of a "
    "running step after a seeded delay. Distinct = distinct scenario rendering + fault plan; "
    "non-trivial = at least two commands ran."
)
ASSUMPTIONS = [
    "external modifications always write fresh content (no ABA inside one command window)",
    "scripts are never vandalised while they run",
]


def gen_scenario(seed, tier="quick", opts=None):
    sc = _mon.gen_monitored(
        seed, tier, opts, always=("amend_late", "amend_pre"), never=("bad",),
        fault_kinds=("edit_input_during",),
    )
    for ph in sc["phases"]:
        if ph["cfg"].get("njob", 1) == 1 and sc["seed"] % 3:
            ph["cfg"]["njob"] = 3
    if seed % 20 != 0:
        masks = sorted(
            k["mask"] for k in load_known()
            if k.get("property") == PROPERTY and k.get("status") == "known" and k.get("mask")
        )
        for fl in sc["faults"].values():
            for f in fl:
                f["masks"] = masks
    sc["check"] = PROPERTY
    return sc


def _extra(sc, run, res, mons, inj):
    w = run.uni.world
    # expected reaction to an input changed underneath a running step: no dispatch after the drain
    draining_at = None
    for ev in w.log:
        if ev[2] == "build_start":
            draining_at = None
        elif ev[2] == "report" and ev[3] == "ERROR" and "draining due to unexpected input changes" in ev[4]:
            draining_at = ev[0]
            res.stats["probe.drain_on_input_change"] += 1
        elif ev[2] == "dispatch" and draining_at is not None:
            res.violate(
                "R-final/drain",
                "dispatch-after-input-drain",
                f"{ev[3]} dispatched ({ev[4]}) after the scheduler drained for unexpected input changes",
                "dispatch-after-input-drain",
            )
        elif ev[2] == "report" and ev[3] == "DEFERRED":
            res.stats["probe.deferred"] += 1
            if any(t == "Unfresh dynamic inputs" for t in ev[5]):
                res.stats["probe.deferred_unfresh"] += 1
            if any(t == "Unavailable dynamic inputs" for t in ev[5]):
                res.stats["probe.deferred_unavailable"] += 1


def run_scenario(sc):
    run, res = _mon.run_monitored(sc, PROPERTY, _extra)
    return res


shrink = _mon.shrink
