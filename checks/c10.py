"""C10: dispatch is exact: nothing ineligible starts, nothing eligible is left."""

from checks import _mon
from sim import monitors as M

PROPERTY = "C10"
ORACLE = "R-elig from definitions at every dispatch commit, cache agreement, no eligible step at phase end or at a hang, termination under small defer caps"
DESIGN_REF = "DESIGN.md section 7 (C10), Appendix A.2"
RULE = (
    "history scenarios with plans defining steps while others run, amend, holds, resources, "
    "optional steps, defer caps 1-3 in half of the builds; every PENDING->RUNNING/CHECKING commit "
    "is judged against R-elig evaluated on base tables only. Distinct = distinct scenario "
    "rendering; non-trivial = at least two commands ran."
)
ASSUMPTIONS = [
    "transient parking of job_loop while an eligible step exists is not reported (only phase end and hangs)",
]


def gen_scenario(seed, tier="quick", opts=None):
    sc = _mon.gen_monitored(seed, tier, opts, never=("bad",), fault_kinds=("kill_step",), defer_caps=(1, 2, 3))
    sc["check"] = PROPERTY
    return sc


def _extra(sc, run, res, mons, inj):
    w = run.uni.world
    for r in run.results:
        if r.hang is not None:
            # a hang with an eligible step is a lost wake-up
            try:
                snap = run.uni.snapshot()
                g = M.Graph(snap)
                need = g.implied_need()
                left = [snap.key(i) for i in snap.steps if M.eligible(g, i, need, M.OPTIONAL, None)[0]]
            except Exception:  # noqa: BLE001
                left = []
            key = "hang-with-eligible" if left else "hang"
            import collections

            c = collections.Counter(
                ev[3] for ev in w.log[r.log_start : r.log_end] if ev[2] == "dispatch" and ev[4] == "CHECKING"
            )
            if c and c.most_common(1)[0][1] > 200:
                # known finding F15: ValidateDynamicJob puts the step back to PENDING without
                # any wait condition and it is selected again at once, for ever
                key = "validate-dynamic-livelock"
            res.violate(
                "R-elig/liveness",
                "hang",
                f"build does not terminate: {r.hang}; eligible steps in the database: {left[:5]}; "
                f"most dispatched: {c.most_common(1)}",
                key,
            )
    # termination of deferring steps: a step FAILED by the cap deferred exactly cap times before
    for ev in w.log:
        if ev[2] == "report" and ev[3] == "FAIL" and any(t.startswith("Deferred more than") for t in ev[5]):
            res.stats["probe.defer_cap_hit"] += 1


def run_scenario(sc):
    run, res = _mon.run_monitored(sc, PROPERTY, _extra)
    return res


shrink = _mon.shrink
