"""C07: a successful build leaves no orphaned outputs behind."""

import os

from sim import history
from sim import monitors as M
from sim import shrink as shrinkmod
from sim.runner import Result, load_known
from sim.simfs import digest_of

PROPERTY = "C07"
ORACLE = "after every successful unrestricted build with cleaning: every path ever recorded as (volatile) output that no required active step produces, and that still holds its recorded content, is gone from disk and from the graph unless an active step consumes it; remaining detached nodes are held by an active consumer; directories created by the director that are empty are gone"
DESIGN_REF = "DESIGN.md section 7 (C07)"
RULE = (
    "history scenarios emphasising renames, moves, re-roling, optional toggles, dropped plans and "
    "steps (with and without their consumers); judged after every build that returns 0 without "
    "targets and with cleaning. Distinct = distinct scenario rendering; non-trivial = at least "
    "one recorded output became an orphan candidate (P \\ A non-empty) in some judged build."
)
ASSUMPTIONS = [
    "an output written by a step that was killed before any commit recorded its hash is outside the statement",
]


def _masks(seed):
    masks = set()
    for k in load_known():
        if k.get("status") == "known" and k.get("mask") and k.get("property") in ("C01", PROPERTY):
            if seed % 20 != 0:
                masks.add(k["mask"])
    masks.discard("drop_producer")  # dropping producers is the point here
    return frozenset(masks)


def gen_scenario(seed, tier="quick", opts=None):
    sc = history.gen_history(seed, never=("bad",), masks=_masks(seed), max_size=8 if tier == "quick" else 12)
    sc["check"] = PROPERTY
    return sc


def judge(uni, recorder, cfg, res, created_dirs):
    """Judge the state right after a successful unrestricted build with cleaning."""
    snap = uni.snapshot()
    g = M.Graph(snap)
    need = g.implied_need()
    root = uni.root
    active_out = set()
    consumed = set()
    node_by_path = {}
    for i, (kind, label, creator, det) in snap.nodes.items():
        if kind == "file":
            node_by_path[label] = i
    for s in snap.steps:
        if not g.attached(s):
            continue
        for src, dyn in g.sources.get(s, ()):
            if src in snap.files:
                consumed.add(g.label(src))
        if need[s] > M.OPTIONAL:
            for snk, dyn in g.sinks.get(s, ()):
                if snk in snap.files and g.attached(snk):
                    active_out.add(g.label(snk))
    ncand = 0
    for path, rec in sorted(recorder.recorded.items()):
        if path in active_out:
            continue
        ncand += 1
        ap = os.path.join(root, path)
        on_disk = digest_of(ap)
        if on_disk is None:
            # gone from disk; the node must be gone too unless somebody consumes it
            i = node_by_path.get(path)
            if i is not None and path not in consumed and not g.attached(i):
                held = _held_by_attached(g, i)
                if not held:
                    res.violate(
                        "R-orphan/node", "orphan-node",
                        f"detached node for {path} survives although no active step uses it",
                        "orphan-node",
                    )
            continue
        if path in consumed:
            res.stats["probe.orphan_kept_for_consumer"] += 1
            continue
        if rec["role"] == "out" and on_disk != rec["digest"]:
            res.stats["probe.orphan_modified_kept"] += 1
            continue
        if path in uni.user_files:
            # the user adopted the path as a source of the project: it is theirs now
            continue
        i = node_by_path.get(path)
        if i is not None and g.attached(i) and M.ROLE[g.file_state(i)] == "STATIC":
            continue
        if i is not None and not g.attached(i) and _held_by_attached(g, i):
            # kept as (indirect) input of something an active step still consumes: the
            # documented fixed point of delete_detached ("held directly or indirectly")
            res.stats["probe.orphan_kept_indirectly"] += 1
            continue
        res.violate(
            "R-orphan/file", "orphan-file",
            f"{path} was recorded as {rec['role']} of a step that is no longer active/needed, "
            f"still holds its recorded content, and is left on disk after a successful build with cleaning",
            "orphan-file",
        )
    # remaining detached nodes must be held by an attached consumer
    for i, (kind, label, creator, det) in snap.nodes.items():
        if det and not _held_by_attached(g, i):
            res.violate(
                "R-orphan/detached", "detached-unheld",
                f"detached node {snap.key(i)} remains although nothing active holds it",
                "detached-unheld",
            )
    # directories the director created that are empty now
    for d in sorted(created_dirs):
        ap = os.path.join(root, d)
        if os.path.isdir(ap) and not os.listdir(ap):
            # still wanted if an active step works in it or writes into it
            wanted = False
            for s in snap.steps:
                # a detached step that is legitimately retained (checked above) keeps its dirs
                if s in snap.nodes:
                    lab = g.label(s)
                    wd = lab.split("  # wd=")[1] if "  # wd=" in lab else "."
                    if os.path.normpath(wd) == os.path.normpath(d):
                        wanted = True
                    for snk, dyn in g.sinks.get(s, ()):
                        if snk in snap.files and (
                            os.path.dirname(g.label(snk)) == d.rstrip("/")
                            or os.path.dirname(g.label(snk)).startswith(d.rstrip("/") + "/")
                        ):
                            wanted = True
            if not wanted:
                res.violate(
                    "R-orphan/dir", "empty-dir-left",
                    f"directory {d} was created by StepUp, is empty and unused, and is left behind",
                    "empty-dir-left",
                )
    return ncand


def _held_by_attached(g, i):
    """Is detached node i (transitively, over product and sink links) held by an attached step?"""
    seen = set()
    todo = [i]
    children = {}
    for j, (kind, label, creator, det) in g.snap.nodes.items():
        if creator is not None and creator != j:
            children.setdefault(creator, []).append(j)
    while todo:
        n = todo.pop()
        if n in seen:
            continue
        seen.add(n)
        for snk, dyn in g.sinks.get(n, ()):
            if g.attached(snk):
                return True
            todo.append(snk)
        for ch in children.get(n, ()):
            todo.append(ch)
    return False


def run_scenario(sc) -> Result:
    res = Result()
    res.signature = history.scenario_signature(sc)
    recorder = M.OutputRecorder()
    base = history.scratch_base()
    root = os.path.join(base, f"{sc['seed']}-A")
    from sim.chooser import Chooser
    from sim.universe import Universe

    sched = sc["schedule"]
    uni = Universe(root, Chooser(sched["seed"], mode=sched.get("mode", "seeded")), monitors=[recorder])
    w = uni.world
    results = []
    created_dirs = set()
    ncand_total = 0
    for ph in sc["phases"]:
        uni.sync_tree(ph["project"])
        log0 = len(w.log)
        r = uni.build(dict(ph["cfg"]), scratch=(ph["mode"] == "scratch"))
        results.append(r)
        if r.harness_error is not None:
            raise r.harness_error
        if not r.ok:
            break
        for ev in w.log[log0:]:
            if ev[2] == "fs" and ev[3] == "director" and ev[4] == "mkdir":
                created_dirs.add(ev[5])
        cfg = ph["cfg"]
        if r.rc_value == 0 and cfg.get("do_clean", True) and not cfg.get("targets") and not cfg.get("target_dirs"):
            ncand_total += judge(uni, recorder, cfg, res, created_dirs)
            res.stats["judged_builds"] += 1
    ncmd = history.collect(res, w, results)
    res.fingerprint = w.fingerprint()
    res.nontrivial = ncand_total > 0 and ncmd >= 2
    res.stats["orphan_candidates"] += ncand_total
    res.sample = {
        "seed": sc["seed"], "features": sc["features"],
        "edits": [p["edits"] for p in sc["phases"]],
        "returncodes": [r.rc_value for r in results],
        "orphan_candidates": ncand_total,
    }
    return res


def shrink(sc):
    yield from shrinkmod.shrink_history(sc)
