"""C12: job, resource and hold limits are never exceeded."""

from checks import _mon

PROPERTY = "C12"
ORACLE = "R-limit: interval arithmetic over the command log (jobs, resource units) and the hold/release request log"
DESIGN_REF = "DESIGN.md section 7 (C12)"
RULE = (
    "history scenarios biased to resources, holds and wide fan-in, njob 1-8, step kills inside "
    "hold blocks; every command start is judged against the running set, the resource units "
    "available and the holds accepted so far. Distinct = distinct scenario rendering + fault "
    "plan; non-trivial = at least two commands ran."
)
ASSUMPTIONS = ["a command is what executor.launch_command is asked to run; hash jobs are not commands"]


def gen_scenario(seed, tier="quick", opts=None):
    import random

    from sim.chooser import derive_seed

    sc = _mon.gen_monitored(seed, tier, opts, always=("resources", "hold"), never=("bad",), fault_kinds=("kill_step",))
    rng = random.Random(derive_seed(seed, "c12"))
    # A plan that fails late, after the steps it declared have started: with --keep-going the
    # build goes on, its running children are detached but still hold their resource units.
    if rng.random() < 0.35:
        k = rng.randrange(len(sc["phases"]))
        proj = sc["phases"][k]["project"]
        owners = sorted({st["plan"] for st in proj["steps"] if st["resources"]})
        if owners:
            name = rng.choice(owners)
            plan = next(p for p in proj["plans"] if p["name"] == name)
            plan.setdefault("extra_ops", []).extend([["sleep", rng.choice([0.1, 0.4, 1.0])], ["exit", 1]])
            sc["phases"][k]["cfg"]["keep_going"] = True
            sc["phases"][k]["edits"] = list(sc["phases"][k]["edits"]) + [f"plan {name} fails late"]
            # more steps that compete for the same resource, declared by another plan
            others = [p for p in proj["plans"] if p["name"] != name]
            res_names = sorted({r for st in proj["steps"] if st["plan"] == name for r in st["resources"]})
            if others and res_names:
                other = rng.choice(others)
                for j in range(rng.randint(1, 2)):
                    other.setdefault("extra_ops", []).append(
                        ["step", f"RX{j} s=0.3 w=rx{k}_{j}.txt", {"out": [f"rx{k}_{j}.txt"], "resources": {res_names[0]: rng.randint(1, 2)}}]
                    )
    sc["check"] = PROPERTY
    return sc


def run_scenario(sc):
    run, res = _mon.run_monitored(sc, PROPERTY)
    return res


shrink = _mon.shrink
