"""C12: job, resource and hold limits are never exceeded."""

from checks import _mon

PROPERTY = "C12"
ORACLE = "R-limit: interval arithmetic over the command log (jobs, resource units) and the hold/release request log"
DESIGN_REF = "DESIGN.md section 7 (C12)"
RULE = (
    "history scenarios biased to resources, holds and wide fan-in, njob 1-8, step kills inside "
    "hold blocks; every command start is judged against the running set, the resource units "
    "available and the holds accepted so far. Distinct = distinct scenario rendering + fault "
    "plan; non-trivial = at least two commands ran."
)
ASSUMPTIONS = ["a command is what executor.launch_command is asked to run; hash jobs are not commands"]


def gen_scenario(seed, tier="quick", opts=None):
    sc = _mon.gen_monitored(seed, tier, opts, always=("resources", "hold"), never=("bad",), fault_kinds=("kill_step",))
    sc["check"] = PROPERTY
    return sc


def run_scenario(sc):
    run, res = _mon.run_monitored(sc, PROPERTY)
    return res


shrink = _mon.shrink
