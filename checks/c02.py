"""C02: the result of a build does not depend on scheduling."""

import copy
import os
import random

from sim import dbview, gen, history
from sim.chooser import Chooser, derive_seed
from sim.runner import Result
from sim.universe import Universe

PROPERTY = "C02"
ORACLE = "T-sched: one project built under K schedules/configurations: identical canonical projection and return code; T-noop: resumed build executes nothing and keeps the projection; identical error-text sets for an injected conflicting pair"
DESIGN_REF = "DESIGN.md section 7 (C02)"
RULE = (
    "one generated project (sub-plans, holds, amend, optional, resources, globs, hostile names) "
    "built from scratch under 3-5 schedules that differ in --jobs, resource limits, launch/"
    "network/hash/reporter latencies and step sleeps, then resumed once without changes; a third "
    "of the scenarios contain one conflicting pair of declarations issued by two sub-plans. "
    "Distinct = distinct project rendering; non-trivial = at least two schedules executed a "
    "different command interleaving."
)
ASSUMPTIONS = [
    "defer_cap stays at its default (a documented timing-dependent livelock guard)",
    "which plan reports a conflict may depend on the order; whether the build fails and the set of error texts may not",
]

PROFILES = [
    {},
    {"net.latency": (0, 0), "proc.launch": (0, 0), "hash.delay": (0, 0)},
    {"net.latency": (0, 200), "proc.launch": (0, 5)},
    {"hash.delay": (50, 400), "proc.launch": (0, 300)},
    {"reporter.latency": (0, 100), "proc.yield": (0, 30)},
    {"proc.launch": (100, 600), "net.accept": (0, 300)},
]


def gen_scenario(seed, tier="quick", opts=None):
    rng = random.Random(seed)
    feats = gen.pick_features(rng, always=("subplans",), never=("bad",))
    proj = gen.gen_project(rng, feats, size=rng.randint(2, 8 if tier == "quick" else 12))
    conflict = None
    if rng.random() < 0.35 and len(proj["plans"]) >= 2:
        conflict = _inject_conflict(rng, proj)
    k = rng.randint(3, 5)
    scheds = []
    for j in range(k):
        cfg = {"njob": rng.choice([1, 2, 3, 4, 8])}
        if "resources" in feats:
            cfg["available_resources"] = rng.choice(["cpu:2,gpu:2", "cpu:4,gpu:3", "cpu:8,gpu:8"])
        if rng.random() < 0.3:
            cfg["use_duration"] = False
        if rng.random() < 0.2:
            cfg["keep_going"] = True
        scheds.append(
            {
                "cfg": cfg,
                "seed": derive_seed(seed, "sched", j),
                "mode": "calm" if j == 0 else "seeded",
                "profile": rng.choice(PROFILES),
                "sleep_scale": rng.choice([1.0, 1.0, 0.2, 3.0]),
            }
        )
    return {"seed": seed, "features": feats, "project": proj, "schedules": scheds, "conflict": conflict, "check": PROPERTY}


def _inject_conflict(rng, proj):
    """Two different plans make declarations that cannot coexist."""
    pa, pb = rng.sample(proj["plans"], 2)
    kind = rng.choice(["same_output", "static_vs_output", "same_step", "tree_vs_output", "glob_vs_output"])
    def rel(path, plan):
        return gen._rel(path, plan["wd"])
    if kind == "same_output":
        a = ["step", "XA w=" + rel("clash.txt", pa), {"out": [rel("clash.txt", pa)]}]
        b = ["step", "XB w=" + rel("clash.txt", pb), {"out": [rel("clash.txt", pb)]}]
    elif kind == "static_vs_output":
        proj["sources"]["clash_src.txt"] = "c1"
        proj.setdefault("undeclared", []).append("clash_src.txt")
        a = ["static", rel("clash_src.txt", pa)]
        b = ["step", "XB w=" + rel("clash_src.txt", pb), {"out": [rel("clash_src.txt", pb)]}]
    elif kind == "same_step":
        a = ["step", "XS w=" + rel("xs.txt", pa), {"out": [rel("xs.txt", pa)], "workdir": rel(".", pa) + "/"}]
        b = ["step", "XS w=" + rel("xs.txt", pb), {"out": [rel("xs.txt", pb)], "workdir": rel(".", pb) + "/"}]
        # same label needs the same workdir and command text: use root-relative spelling
        a = ["step", "XS w=xs.txt", {"out": ["xs.txt"], "workdir": rel(".", pa) + "/"}]
        b = ["step", "XS w=xs.txt", {"out": ["xs.txt"], "workdir": rel(".", pb) + "/"}]
    elif kind == "glob_vs_output":
        # a pattern and a step (declared with a working directory) that builds a file the
        # pattern matches; the file is on disk already, so either arrival order is rejected
        proj["sources"]["cg/x.out"] = "c3"
        proj.setdefault("undeclared", []).append("cg/x.out")
        a = ["glob", rel("cg/${*n}.out", pa), {}, "CG"]
        b = ["step", "XG w=x.out", {"out": ["x.out"], "workdir": rel("cg", pb) + "/"}]
    else:
        proj["sources"]["ctree/keep.txt"] = "c2"
        proj.setdefault("undeclared", []).append("ctree/keep.txt")
        a = ["static", rel("ctree/", pa)]
        b = ["step", "XT w=" + rel("ctree/out.txt", pb), {"out": [rel("ctree/out.txt", pb)]}]
    pa.setdefault("extra_ops", []).append(a)
    pb.setdefault("extra_ops", []).append(b)
    gen._assign_statics(rng, proj)
    return {"kind": kind, "plans": [pa["name"], pb["name"]]}


def _scaled(proj, scale):
    if scale == 1.0:
        return proj
    p = copy.deepcopy(proj)
    # sleeps are part of the command text of compact steps, so only script steps may be
    # rescaled without changing the identity of a step
    for st in p["steps"]:
        if st["script"]:
            st["acts"] = [[v, (round(a * scale, 3) if v == "sleep" else a)] for v, a in st["acts"]]
    return p


def run_scenario(sc) -> Result:
    res = Result()
    proj = sc["project"]
    fake = {"features": sc["features"], "phases": [{"project": proj, "cfg": {}, "mode": "scratch"}]}
    res.signature = history.scenario_signature(fake) + str(sc.get("conflict"))
    base = history.scratch_base()
    outcomes = []
    fps = []
    for j, s in enumerate(sc["schedules"]):
        root = os.path.join(base, f"{sc['seed']}-S{j}")
        ch = Chooser(s["seed"], mode=s["mode"], profile=s.get("profile") or {})
        uni = Universe(root, ch, name=f"S{j}")
        # NB: every universe renders the same files (script sleeps excepted)
        uni.sync_tree(proj)
        r = uni.build(dict(s["cfg"]), scratch=True)
        if r.harness_error is not None:
            raise r.harness_error
        w = uni.world
        history.collect(res, w, [r])
        fps.append(w.fingerprint())
        errs = sorted({ev[6][2] for ev in w.log if ev[2] == "op" and ev[6][0] == "err" and ev[6][1] == "GraphError"})
        out = {"j": j, "ok": r.ok, "rc": r.rc_value, "errs": errs, "uni": uni, "res": r}
        if r.ok:
            out["proj"] = uni.projection()
        outcomes.append(out)
    res.fingerprint = "|".join(fps)
    ref = outcomes[0]
    for o in outcomes:
        if not o["ok"]:
            r = o["res"]
            res.violate("T-sched/complete", "incomplete",
                        f"schedule {o['j']} did not complete: {r.exception or r.hang}", "incomplete")
    if all(o["ok"] for o in outcomes):
        rcs = [o["rc"] for o in outcomes]
        def klass(rc):
            return "ok" if rc in (0, 8) else ("failed" if rc & 4 else "pending")
        if len({klass(rc) for rc in rcs}) > 1:
            res.violate("T-sched/rc", "rc-depends-on-schedule",
                        f"return codes differ across schedules: {rcs} cfgs={[s['cfg'] for s in sc['schedules']]}",
                        "rc-differs")
        elif klass(rcs[0]) == "ok":
            for o in outcomes[1:]:
                d = dbview.diff_projections(ref["proj"], o["proj"], ignore_detached=False)
                if d:
                    res.violate("T-sched/graph", "graph-depends-on-schedule",
                                f"schedule 0 vs {o['j']} ({sc['schedules'][o['j']]['cfg']}):\n" + "\n".join(d[:10]),
                                "graph-differs")
                    break
        else:
            res.stats["failed_in_all_schedules"] += 1
        if sc.get("conflict"):
            sets = [tuple(o["errs"]) for o in outcomes]
            res.stats["probe.conflict_scenarios"] += 1
            if any(klass(rc) == "ok" for rc in rcs):
                res.violate("T-sched/conflict", "conflict-accepted",
                            f"a conflicting pair ({sc['conflict']}) was accepted in some schedule: rcs={rcs}", "conflict-accepted")
            elif len(set(sets)) > 1:
                res.violate("T-sched/conflict-text", "error-text-depends-on-order",
                            f"error texts differ across schedules for {sc['conflict']}: {sorted(set(sets))[:3]}",
                            "error-text-differs")
            first_reporters = set()
            for o in outcomes:
                for ev in o["uni"].world.log:
                    if ev[2] == "op" and ev[6][0] == "err" and ev[6][1] == "GraphError":
                        first_reporters.add(ev[3] and ev[5][1] if isinstance(ev[5], tuple) else "?")
                        break
            if len(first_reporters) > 1:
                res.stats["probe.both_arrival_orders"] += 1
        # resumed no-change build
        if klass(rcs[0]) == "ok":
            o = outcomes[-1]
            uni = o["uni"]
            w = uni.world
            log0 = len(w.log)
            r2 = uni.build(dict(sc["schedules"][0]["cfg"]))
            if r2.harness_error is not None:
                raise r2.harness_error
            history.collect(res, w, [r2])
            if r2.ok:
                cmds = [ev[5] for ev in w.log[log0:] if ev[2] == "cmd_start"]
                if cmds:
                    res.violate("T-noop", "resume-ran", f"resumed build executed {cmds[:4]}", "resume-commands")
                d = dbview.diff_projections(ref["proj"], uni.projection(), ignore_detached=False)
                if d:
                    res.violate("T-noop/graph", "resume-graph", "\n".join(d[:10]), "resume-graph")
    res.nontrivial = len(res.interleavings) >= 2
    res.sample = {
        "seed": sc["seed"], "features": sc["features"], "conflict": sc.get("conflict"),
        "schedules": [{k: v for k, v in s.items() if k != "seed"} for s in sc["schedules"]],
        "returncodes": [o["rc"] for o in outcomes],
    }
    return res


def shrink(sc):
    from sim import shrink as shrinkmod

    n = len(sc["schedules"])
    for j in range(n - 1, 0, -1):
        if n > 2:
            out = copy.deepcopy(sc)
            del out["schedules"][j]
            yield out
    for j in range(n):
        if sc["schedules"][j].get("profile"):
            out = copy.deepcopy(sc)
            out["schedules"][j]["profile"] = {}
            yield out
    fake = {"seed": sc["seed"], "features": sc["features"], "schedule": {"mode": "calm"},
            "phases": [{"project": sc["project"], "cfg": {"njob": 1}, "mode": "scratch", "edits": []}]}
    for cand in shrinkmod.shrink_history(fake):
        if len(cand["phases"]) != 1:
            continue
        out = copy.deepcopy(sc)
        out["project"] = cand["phases"][0]["project"]
        yield out
