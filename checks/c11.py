"""C11: exactly the needed steps are executed."""

import copy
import os
import random

from sim import gen, history
from sim import monitors as M
from sim import shrink as shrinkmod
from sim.chooser import Chooser, derive_seed
from sim.runner import Result
from sim.simfs import digest_of
from sim.universe import Universe

PROPERTY = "C11"
ORACLE = "R-need: need fixpoint from the definition (PLAN, DEFAULT, exact and directory target elevation, 'an output required by a built step') versus the executed commands and the final states; revert of unneeded optional steps; target warnings"
DESIGN_REF = "DESIGN.md section 7 (C11), Appendix A.3"
RULE = (
    "history scenarios with OPTIONAL/DEFAULT/PLAN mixes, optional chains and optional steps needed "
    "through amended inputs; builds with and without targets (exact files, directories, "
    "non-produced paths; raw strings through the real _normalize_targets) that change between "
    "restarts. Distinct = distinct scenario rendering incl. targets; non-trivial = at least one "
    "attached step was not required in some judged build and at least two commands ran."
)
ASSUMPTIONS = ["the revert of optional steps is only required after unrestricted successful builds with cleaning"]


def gen_scenario(seed, tier="quick", opts=None):
    sc = history.gen_history(seed, always=("optional",), never=("bad",), masks=frozenset(["drop_producer", "move_step"]),
                             max_size=8 if tier == "quick" else 12)
    rng = random.Random(derive_seed(seed, "c11"))
    for k, ph in enumerate(sc["phases"]):
        outs, vols, prod = gen.project_outputs(ph["project"])
        if rng.random() < 0.45 and outs:
            raw = []
            for _ in range(rng.randint(1, 2)):
                r = rng.random()
                t = rng.choice(sorted(outs))
                if r < 0.55:
                    raw.append(t)
                elif r < 0.8:
                    d = os.path.dirname(t)
                    raw.append((d + "/") if d else t)
                elif r < 0.9:
                    raw.append("not_produced_%d.txt" % k)
                else:
                    raw.append("./" + t)
            ph["cfg"]["raw_targets"] = raw
    sc["check"] = PROPERTY
    return sc


class NeedMonitor(M.Monitor):
    name = "need"

    def __init__(self):
        super().__init__()
        self.dispatched_unneeded = []

    def on_commit(self, world, prev, snap, info):
        if prev is None:
            return
        targets, tdirs, threshold, avail = M.build_params(world)
        g = None
        for i, row in snap.steps.items():
            prow = prev.steps.get(i)
            if prow is None:
                continue
            if prow[M.COL["state"]] == M.PENDING and row[M.COL["state"]] == M.RUNNING:
                if g is None:
                    g = M.Graph(prev)
                    need = g.implied_need(targets, tdirs)
                self.count("run_dispatches")
                if g.attached(i) and need.get(i, M.OPTIONAL) <= threshold:
                    self.violate(
                        "R-need/executed", "unneeded-executed",
                        f"{prev.key(i)} was dispatched for execution with need "
                        f"{M.Need(need.get(i, M.OPTIONAL)).name} <= threshold {M.Need(threshold).name}",
                        "unneeded-executed",
                    )


def run_scenario(sc) -> Result:
    from path import Path
    from stepup.core.tui import _normalize_targets

    res = Result()
    res.signature = history.scenario_signature(sc)
    mon = NeedMonitor()
    base = history.scratch_base()
    root = os.path.join(base, f"{sc['seed']}-A")
    sched = sc["schedule"]
    uni = Universe(root, Chooser(sched["seed"], mode=sched.get("mode", "seeded")), monitors=[mon])
    w = uni.world
    results = []
    nunneeded = 0
    for ph in sc["phases"]:
        uni.sync_tree(ph["project"])
        cfg = {k: v for k, v in ph["cfg"].items() if k != "raw_targets"}
        raw = ph["cfg"].get("raw_targets")
        targets, tdirs = [], []
        if raw:
            cwd = os.getcwd()
            os.chdir(root)
            try:
                targets, tdirs = _normalize_targets(list(raw), Path(root))
            finally:
                os.chdir(cwd)
            cfg["targets"] = targets
            cfg["target_dirs"] = tdirs
        log0 = len(w.log)
        r = uni.build(cfg, scratch=(ph["mode"] == "scratch"))
        results.append(r)
        if r.harness_error is not None:
            raise r.harness_error
        if not r.ok:
            break
        from stepup.core.enums import ReturnCode

        rc = r.returncode
        if rc is None or (rc & ~ReturnCode.WARNING):
            continue
        res.stats["judged_builds"] += 1
        snap = uni.snapshot()
        g = M.Graph(snap)
        tl = [str(t) for t in targets]
        dl = [str(t) for t in tdirs]
        need = g.implied_need(tl, dl)
        threshold = M.DEFAULT if (tl or dl) else M.OPTIONAL
        for s in snap.steps:
            if not g.attached(s):
                continue
            st = g.step(s, "state")
            if need[s] > threshold:
                if st != M.SUCCEEDED:
                    res.violate("R-need/built", "required-not-built",
                                f"{snap.key(s)} is required ({M.Need(need[s]).name}) but is {M.SNAME[st]} after a build that returned {rc}",
                                "required-not-built")
            else:
                nunneeded += 1
                if not (tl or dl) and cfg.get("do_clean", True):
                    if st != M.PENDING:
                        res.violate("R-need/revert", "unneeded-not-reverted",
                                    f"{snap.key(s)} is not required but is {M.SNAME[st]} after an unrestricted successful build with cleaning",
                                    "unneeded-not-reverted")
                    for snk, dyn in g.sinks.get(s, ()):
                        if snk not in snap.files or not g.attached(snk):
                            continue
                        fs = g.file_state(snk)
                        path = g.label(snk)
                        if fs not in (M.F["PLANNED"], M.F["VOLATILE"]):
                            res.violate("R-need/revert", "unneeded-output-state",
                                        f"output {path} of unneeded {snap.key(s)} is {M.FNAME[fs]}", "unneeded-output-state")
                        if os.path.lexists(os.path.join(root, path)):
                            res.violate("R-need/revert", "unneeded-output-on-disk",
                                        f"output {path} of unneeded optional step {snap.key(s)} is still on disk", "unneeded-output-on-disk")
        # target warnings
        warned = set()
        for ev in w.log[log0:]:
            if ev[2] == "report" and ev[3] == "WARNING" and "target(s) are not produced by any step" in ev[4]:
                warned.update(x.strip() for x in ev[4].split(":", 1)[1].split(","))
        for t in tl:
            produced = False
            for i, (kind, label, creator, det) in snap.nodes.items():
                if kind == "file" and label == t and not det and i in snap.files:
                    if M.ROLE[g.file_state(i)] == "OUTPUT" and creator in snap.steps:
                        produced = True
            if produced == (t in warned):
                res.violate("R-need/warning", "target-warning",
                            f"target {t}: produced={produced} but warning present={t in warned}", "target-warning")
    for oracle, cls, msg, key in mon.violations:
        res.violate(oracle, cls, msg, key)
    for k, v in mon.counters.items():
        res.stats["need." + k] += v
    ncmd = history.collect(res, w, results)
    res.fingerprint = w.fingerprint()
    res.nontrivial = nunneeded > 0 and ncmd >= 2
    res.sample = {
        "seed": sc["seed"], "features": sc["features"],
        "edits": [p["edits"] for p in sc["phases"]], "cfgs": [p["cfg"] for p in sc["phases"]],
        "returncodes": [r.rc_value for r in results],
    }
    return res


def shrink(sc):
    for k, ph in enumerate(sc["phases"]):
        if "raw_targets" in ph["cfg"]:
            out = copy.deepcopy(sc)
            del out["phases"][k]["cfg"]["raw_targets"]
            yield out
    for cand in shrinkmod.shrink_history(sc):
        # shrink_history simplifies configs; keep the raw targets where they were
        for k, ph in enumerate(cand["phases"]):
            if k < len(sc["phases"]) and "raw_targets" in sc["phases"][k]["cfg"] and len(cand["phases"]) == len(sc["phases"]):
                ph["cfg"]["raw_targets"] = sc["phases"][k]["cfg"]["raw_targets"]
        yield cand
