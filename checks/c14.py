"""C14: a watch-mode rebuild is equivalent to a restart."""

import asyncio
import copy
import os
import random
import shutil

from sim import dbview, history
from sim import shrink as shrinkmod
from sim.chooser import Chooser, derive_seed
from sim.gen import project_outputs, render
from sim.runner import Result, load_known
from sim.monitors import StaleChildMonitor
from sim.universe import Universe, scratch_base, tree_snapshot
from sim.world import SOCKET_PATH

PROPERTY = "C14"
ORACLE = "T-restart: at every rebuild of a watching director the tree (with database) is forked; the fork is built by a restarted director; return code, output files and the full graph projection of the two must be equal"
DESIGN_REF = "DESIGN.md section 7 (C14), 3.4"
RULE = (
    "one watching director per scenario (real Watcher, AsyncInotifyWrapper over FakeInotify that "
    "is calibrated against the kernel by tools/calibrate_inotify.py, real SocketAsyncRPCClient "
    "as the user's `stepup` commands); 1-4 watch phases, each with project edits (the C01 edit "
    "operators rendered to file operations) and raw events: rewrite with same content, delete "
    "and recreate, delete/overwrite an output, remove and recreate a directory, rename a "
    "directory away and back, create a new sub-directory with files matching a multi-level "
    "pattern, edits of static files while the preceding build is still running. Inotify "
    "delivery latencies are seeded. Distinct = distinct scenario rendering; non-trivial = at "
    "least one rebuild executed a command or recorded a change."
)
ASSUMPTIONS = [
    "the user triggers the rebuild after the watcher has reported all events of the edits (inotify queue drained); an edit racing with the rebuild request is outside the statement",
    "tracked environment variables cannot change inside one director process; they are not edited",
]

RAW_KINDS = ["touch_same", "del_recreate", "rm_output", "clobber_output", "rmtree_recreate",
             "rename_dir_roundtrip", "new_subdir_populate", "del_then_restore_later", "chmod_flip",
             "populate_missing_base"]


def _masks(seed):
    """Trigger masks of known findings: one run in twenty ignores them."""
    masks = set()
    for k in load_known():
        if k.get("property") == PROPERTY and k.get("status") == "known" and k.get("mask") and seed % 20 != 0:
            masks.add(k["mask"])
    return masks


def _new_subdir_sources(sc, k):
    """Sources of phase k that live in a directory which no source of phase k-1 lives in."""
    before = {os.path.dirname(s) for s in sc["phases"][k - 1]["project"]["sources"]}
    gdirs = [g["dir"] + "/" for g in sc["phases"][k]["project"]["globs"] if g.get("deep")]
    # a file directly in the pattern's base directory is found through the pending watch of
    # that directory (and of its missing ancestors): only deeper new directories are F17
    return sorted(s for s in sc["phases"][k]["project"]["sources"]
                  if os.path.dirname(s) not in before and any(s.startswith(g) and os.path.dirname(s) + "/" != g for g in gdirs))


def gen_scenario(seed, tier="quick", opts=None):
    rng0 = random.Random(derive_seed(seed, "c14pre"))
    always = ("globs", "deepglobs") if rng0.random() < 0.4 else ()
    sc = history.gen_history(seed, always=always, never=("bad", "env"), masks=frozenset(["drop_producer", "move_step"]),
                             nphases=rng0.randint(2, 4), max_size=7 if tier == "quick" else 11)
    rng = random.Random(derive_seed(seed, "c14"))
    for k, ph in enumerate(sc["phases"]):
        ph["raw"] = []
        ph["early"] = False
        if k == 0:
            continue
        if rng.random() < 0.3:
            # no project edit in this phase: only raw events
            ph["project"] = copy.deepcopy(sc["phases"][k - 1]["project"])
            ph["edits"] = ["none"]
        for _ in range(rng.randint(0, 3)):
            ph["raw"].append({"kind": rng.choice(RAW_KINDS), "pick": rng.randrange(1 << 30), "gap": rng.choice([0, 0, 0.005, 0.05, 0.5])})
        ph["early"] = rng.random() < 0.25
        ph["op_gap"] = rng.choice([0, 0, 0.002, 0.03])
    masks = _masks(seed)
    sc["masks"] = sorted(set(sc.get("masks", [])) | masks)
    if "new_subdir" in masks:
        # known finding F17: keep files out of directories that appear while watching
        for k in range(1, len(sc["phases"])):
            ph = sc["phases"][k]
            ph["raw"] = [x for x in ph["raw"] if x["kind"] != "new_subdir_populate"]
            for s in _new_subdir_sources(sc, k):
                for later in sc["phases"][k:]:
                    later["project"]["sources"].pop(s, None)
    cfg = dict(sc["phases"][0]["cfg"])
    cfg.pop("do_clean", None)
    cfg.pop("keep_going", None)
    sc["cfg"] = cfg
    sc["check"] = PROPERTY
    return sc


def _pick(seq, pick):
    seq = sorted(seq)
    return seq[pick % len(seq)] if seq else None


class Session:
    """The user of one watching director."""

    def __init__(self, sc, uni, base):
        self.sc = sc
        self.uni = uni
        self.base = base
        self.forks = []  # (phase index, root, state after the watch rebuild)
        self.stats = {}
        self.aborted = None
        self.error = None
        self.pending_restore = []
        self.detached_output_events = []
        self.detached_now = set()
        self.session_new_dirs = set()

    def count(self, k, n=1):
        self.stats[k] = self.stats.get(k, 0) + n

    async def quiesce(self, world):
        """Wait until the watcher has seen everything the user did."""
        h = world.handler
        for _ in range(2000):
            await asyncio.sleep(0.05)
            if world.inotify_pending():
                continue
            w = h.watcher
            if not w.busy_watching.is_set():
                continue
            if self.change_queue is not None and not self.change_queue.empty():
                continue
            if world.db._lock.locked():
                continue
            await asyncio.sleep(0.2)
            if not world.inotify_pending() and (self.change_queue is None or self.change_queue.empty()) and not world.db._lock.locked():
                return True
        return False

    def raw_ops(self, proj, raw):
        """Translate one raw event into Universe user ops, given the tree as it is now."""
        root = self.uni.root
        kind, pick = raw["kind"], raw["pick"]
        srcs = [s for s in proj["sources"] if os.path.isfile(os.path.join(root, s))]
        outs, vols, _ = project_outputs(proj)
        built = [o for o in sorted(outs) if os.path.isfile(os.path.join(root, o))]
        dirs = sorted({os.path.dirname(s) for s in srcs if os.path.dirname(s)})
        if kind == "touch_same" and srcs:
            p = _pick(srcs, pick)
            return [("touch_same", p)]
        if kind == "del_recreate" and srcs:
            p = _pick(srcs, pick)
            text = open(os.path.join(root, p)).read()
            return [("raw_remove", p), ("sleep", raw["gap"]), ("raw_write", p, text)]
        if kind == "del_then_restore_later" and srcs:
            p = _pick(srcs, pick)
            text = open(os.path.join(root, p)).read()
            self.pending_restore.append(("raw_write", p, text))
            return [("raw_remove", p)]
        if kind in ("rm_output", "clobber_output") and built:
            p = _pick(built, pick)
            if p in self.detached_now and "event_while_detached" in self.sc.get("masks", ()):
                return []
            if kind == "rm_output":
                return [("raw_remove", p)]
            return [("raw_write", p, f"clobbered {pick}\n")]
        if kind == "chmod_flip" and srcs:
            p = _pick(srcs, pick)
            mode = os.stat(os.path.join(root, p)).st_mode & 0o777
            return [("chmod_raw", p, mode ^ 0o040), ("sleep", raw["gap"]), ("chmod_raw", p, mode)] if pick % 2 else [("chmod_raw", p, mode ^ 0o040)]
        if kind == "rmtree_recreate" and dirs:
            d = _pick(dirs, pick)
            files = {}
            for dp, dn, fn in os.walk(os.path.join(root, d)):
                for f in fn:
                    ap = os.path.join(dp, f)
                    files[os.path.relpath(ap, root)] = (open(ap).read(), os.stat(ap).st_mode & 0o777)
            ops = [("rmtree", d), ("sleep", raw["gap"])]
            for p, (text, mode) in sorted(files.items()):
                ops.append(("raw_write", p, text))
                ops.append(("chmod_raw", p, mode))
            return ops
        if kind == "rename_dir_roundtrip" and dirs:
            d = _pick(dirs, pick)
            tmp = d.rstrip("/") + ".moved"
            if os.path.lexists(os.path.join(root, tmp)):
                return []
            return [("rename", d, tmp), ("sleep", raw["gap"]), ("rename", tmp, d)]
        if kind == "populate_missing_base":
            # the base directory of a pattern (and possibly its parent) does not exist yet: it
            # is watched "pending"; create it level by level and put a first match into it
            missing = [g for g in proj["globs"] if not os.path.isdir(os.path.join(root, g["dir"]))]
            if missing:
                g = missing[pick % len(missing)]
                ops = []
                cur = ""
                for part in g["dir"].split("/"):
                    cur = f"{cur}/{part}" if cur else part
                    if not os.path.isdir(os.path.join(root, cur)):
                        ops.append(("mkdir", cur))
                        ops.append(("sleep", raw["gap"]))
                ops.append(("raw_write", f"{g['dir']}/i{900 + pick % 90}.dat", f"first {pick}\n"))
                return ops
            return []
        if kind == "new_subdir_populate":
            deep = [g for g in proj["globs"] if g.get("deep")]
            if deep:
                g = _pick([g["dir"] for g in deep], pick)
                sub = f"{g}/w{pick % 97}"
                if not os.path.isdir(os.path.join(root, g)) or os.path.lexists(os.path.join(root, sub)):
                    return []
                return [("mkdir", sub), ("sleep", raw["gap"]), ("raw_write", f"{sub}/iw{pick % 97}.dat", f"new {pick}\n")]
        return []

    async def apply(self, world, ops, gap):
        uni = self.uni
        for op in ops:
            if op[0] == "sleep":
                if op[1]:
                    await asyncio.sleep(op[1])
                continue
            for arg in op[1:3]:
                if isinstance(arg, str):
                    hit = [p for p in self.detached_now if p == arg or p.startswith(arg.rstrip("/") + "/")]
                    if hit:
                        # The user touches a path whose node is detached right now (its
                        # declaring plan failed in the preceding build): known finding F20.
                        self.detached_output_events.extend(hit[:3])
                        self.count("event_while_detached")
            if op[0] == "touch_same":
                cwd = os.getcwd()
                os.chdir(uni.root)
                try:
                    world.fs.touch_same("user", op[1])
                finally:
                    os.chdir(cwd)
            elif op[0] == "chmod_raw":
                cwd = os.getcwd()
                os.chdir(uni.root)
                try:
                    if os.path.lexists(op[1]):
                        world.fs.chmod("user", op[1], op[2])
                finally:
                    os.chdir(cwd)
            else:
                uni.apply_user_ops([op])
            self.count("fault.fs_event_" + op[0])
            if gap:
                await asyncio.sleep(gap)

    def observe(self, world):
        return {
            "rc": world.handler.builder.returncode.value,
            "proj": self.uni.projection(),
            "tree": tree_snapshot(self.uni.root),
        }

    async def __call__(self, world):
        from stepup.core.rpc import SocketAsyncRPCClient

        sc = self.sc
        self.change_queue = None
        self.error = None
        for _ in range(100_000):
            if world.net is not None and SOCKET_PATH in world.net.servers:
                break
            await asyncio.sleep(0.01)
        client = SocketAsyncRPCClient(SOCKET_PATH)
        try:
            await client("wait_for_idle")
            # the wrapper's queue is only reachable through the running watcher loop
            import gc

            from stepup.core.watcher import AsyncInotifyWrapper

            for obj in gc.get_objects():
                if isinstance(obj, AsyncInotifyWrapper) and obj.inotify is not None and obj.inotify in world.inotifies:
                    self.change_queue = obj.change_queue
            phases = sc["phases"]
            early_next = None
            for k in range(1, len(phases)):
                ph = phases[k]
                log0 = len(world.log)
                self.detached_now = {key[5:] for key in self.uni.projection()["detached"] if key.startswith("file:")}
                ops, want = self.uni.user_ops_for(ph["project"])
                if early_next is not None:
                    ops = [op for op in ops if op not in early_next]
                await self.apply(world, ops, ph.get("op_gap", 0))
                for path, (text, mode) in want.items():
                    self.uni.user_files[path] = (text, mode)
                for path in list(self.uni.user_files):
                    if path not in want:
                        self.uni.user_files.pop(path, None)
                restore, self.pending_restore = self.pending_restore, []
                for raw in ph["raw"]:
                    await self.apply(world, self.raw_ops(ph["project"], raw), ph.get("op_gap", 0))
                await self.apply(world, [r for r in restore if not os.path.lexists(os.path.join(self.uni.root, r[1]))], 0)
                if not await self.quiesce(world):
                    self.aborted = f"watcher did not become quiet in phase {k}"
                    break
                # fork the universe: same files, same database
                fork_root = os.path.join(self.base, f"{sc['seed']}-fork{k}")
                shutil.rmtree(fork_root, ignore_errors=True)
                world.copy_tree(fork_root)
                nrecorded = len(world.handler.watcher.updated) + len(world.handler.watcher.deleted)
                self.count("changes_recorded", nrecorded)
                await client("start_build_phase")
                early_next = None
                perturbed = False
                if k + 1 < len(phases) and phases[k + 1].get("early"):
                    # static data sources edited while this build is still running
                    nops, _ = self.uni.user_ops_for(phases[k + 1]["project"])
                    cur = phases[k]["project"]["sources"]
                    early = [op for op in nops if op[0] == "write" and op[1] in cur and op[1] in phases[k + 1]["project"]["sources"]]
                    if early:
                        await asyncio.sleep(world.chooser.delay("user.early_edit", 0, 300))
                        if not world.handler.watcher.busy_watching.is_set():
                            self.count("early_edit_during_build")
                        await self.apply(world, early, 0)
                        early_next = early
                        perturbed = True
                await client("wait_for_idle")
                ncmd = sum(1 for ev in world.log[log0:] if ev[2] == "cmd_start")
                self.count("rebuild_commands", ncmd)
                self.count("rebuilds")
                # every directory the user created since the director started watching: a
                # directory that was missed once (F17) stays unwatched in later phases
                self.session_new_dirs.update(ev[5] for ev in world.log[log0:] if ev[2] == "fs" and ev[3] == "user" and ev[4] == "mkdir")
                if perturbed:
                    self.count("rebuilds_not_compared_edit_during_build")
                    shutil.rmtree(fork_root, ignore_errors=True)
                elif self.detached_output_events and "event_while_detached" in sc.get("masks", ()):
                    self.count("rebuilds_not_compared_event_while_detached")
                    shutil.rmtree(fork_root, ignore_errors=True)
                else:
                    new_dirs = sorted(self.session_new_dirs)
                    stale = any(ev[2] == "stale_child" for ev in world.log[log0:])
                    self.forks.append((k, fork_root, self.observe(world), ncmd, nrecorded,
                                       (new_dirs, stale, list(self.detached_output_events))))
            await client("shutdown")
        except BaseException as exc:  # noqa: BLE001
            import traceback

            self.error = (exc, traceback.format_exc())
            if world.handler is not None and not world.handler.stop_event.is_set():
                await world.handler.shutdown()
            if isinstance(exc, asyncio.CancelledError):
                raise
        finally:
            try:
                await client.close()
            except Exception:  # noqa: BLE001
                pass


def compare(watch_state, fork_state):
    diffs = []
    if (watch_state["rc"] == 0) != (fork_state["rc"] == 0):
        diffs.append(f"returncode: watch={watch_state['rc']} restart={fork_state['rc']}")
    if fork_state["rc"] != 0:
        # An incomplete build stops at a schedule-dependent point (C02 only promises equal
        # graphs for successful builds), and even its flags depend on the schedule: a failed
        # sub-plan that its re-running parent recycles afterwards is PENDING, not FAILED, at
        # the end (DRAINED versus DRAINED|FAILED).  Only "complete or not" is comparable.
        return diffs
    ta, tb = watch_state["tree"], fork_state["tree"]
    # A path that the final workflow records as a file still to be built (PLANNED, OUTDATED: an
    # output of a pending step that is not needed) may or may not be on disk, depending on
    # whether its step happened to run before it stopped being needed: a memory, like the ones
    # stripped from the graphs below.  Everything else on disk must agree.
    unsettled = set()
    for proj in (watch_state["proj"], fork_state["proj"]):
        for k, d in proj["nodes"].items():
            if d.get("kind") == "file" and d.get("state") in ("PLANNED", "OUTDATED"):
                unsettled.add(k[5:])
    for p in sorted(set(ta) | set(tb)):
        if ta.get(p) != tb.get(p) and p not in unsettled:
            diffs.append(f"tree {p}: watch={ta.get(p)} restart={tb.get(p)}")
            if len(diffs) > 8:
                break
    # like C01/C05: memories (detached sinks, stored-hash flag and amended information of steps
    # that are not SUCCEEDED) depend on the schedule of either universe and are not compared
    pa = history.strip_for_twin(watch_state["proj"])
    pb = history.strip_for_twin(fork_state["proj"])
    diffs.extend("graph " + d for d in dbview.diff_projections(pa, pb))
    return diffs


def classify(diffs):
    d0 = diffs[0]
    if d0.startswith("returncode"):
        return "rc"
    if d0.startswith("tree"):
        return "tree"
    return "graph"


def run_scenario(sc) -> Result:
    res = Result()
    res.signature = history.scenario_signature(sc)
    base = scratch_base()
    root = os.path.join(base, f"{sc['seed']}-W")
    sched = sc["schedule"]
    ch = Chooser(sched["seed"], mode=sched.get("mode", "seeded"), profile=sched.get("profile"))
    uni = Universe(root, ch, name="W", monitors=[StaleChildMonitor()])
    w = uni.world
    uni.sync_tree(sc["phases"][0]["project"])
    session = Session(sc, uni, base)
    cfg = dict(sc["cfg"])
    cfg["do_watch"] = True
    r = uni.build(cfg, scratch=True, user=session, max_ticks=400_000)
    try:
        if r.harness_error is not None:
            raise r.harness_error
        if session.error is not None and not isinstance(session.error[0], asyncio.CancelledError):
            if r.exception is None and r.hang is None:
                raise RuntimeError("user session failed: " + session.error[1])
        history.collect(res, w, [r])
        for k, v in session.stats.items():
            res.stats[k] += v
        res.fingerprint = w.fingerprint()
        if r.exception is not None:
            res.violate("T-restart/internal", "watch-exception", f"watching director raised {type(r.exception).__name__}: {r.exception}", f"watch-exception:{type(r.exception).__name__}")
            return res
        if r.hang is not None:
            res.violate("T-restart/liveness", "watch-hang", f"watching director does not finish: {r.hang}", "watch-hang")
            return res
        if session.aborted:
            res.discard = session.aborted
            return res
        for k, fork_root, watch_state, ncmd, nrec, (new_dirs, stale_w, det_out) in session.forks:
            chf = Chooser(derive_seed(sched["seed"], "fork", k), mode=sched.get("mode", "seeded"), profile=sched.get("profile"))
            fu = Universe(fork_root, chf, name=f"F{k}", monitors=[StaleChildMonitor()])
            fcfg = dict(sc["cfg"])
            fr = fu.build(fcfg)
            if fr.harness_error is not None:
                raise fr.harness_error
            res.builds += 1
            res.vtime += fr.vtime
            if not fr.ok:
                # the restarted director itself fails: nothing to compare with (C05/C09 territory)
                res.stats["restart_incomplete"] += 1
                continue
            fstate = {"rc": fr.rc_value, "proj": fu.projection(), "tree": tree_snapshot(fork_root)}
            diffs = compare(watch_state, fstate)
            res.stats["comparisons"] += 1
            if ncmd or nrec:
                res.nontrivial = True
            if diffs:
                edits = sc["phases"][k]["edits"], [x["kind"] for x in sc["phases"][k]["raw"]]
                res.violate("T-restart", classify(diffs), f"rebuild {k} (edits {edits}) differs from a restart: " + "; ".join(diffs[:6]),
                            key_for(diffs, sc, k, fstate, watch_state, new_dirs,
                                    stale_w or any(ev[2] == "stale_child" for ev in fu.world.log), det_out))
                break
        res.sample = {"seed": sc["seed"], "features": sc["features"], "phases": [
            {"edits": ph["edits"], "raw": [x["kind"] for x in ph["raw"]], "early": ph["early"]} for ph in sc["phases"]],
            "compared": len(session.forks)}
    finally:
        for k, fork_root, *_ in session.forks:
            shutil.rmtree(fork_root, ignore_errors=True)
        uni.destroy()
    return res


def key_for(diffs, sc, k, fork_state=None, watch_state=None, new_dirs=(), stale=False, det_out=()):
    """Structural class of a difference."""
    cls = classify(diffs)
    from checks.c01 import _only_inp_digest

    if all(_only_inp_digest(x) for x in diffs):
        return "inp-digest-only"  # known finding F12, seen through the restart twin
    if fork_state is not None and new_dirs:
        # files the restart knows and the watcher does not, all inside directories that
        # appeared during this watch phase
        only_restart = [n[5:] for n in fork_state["proj"]["nodes"] if n.startswith("file:") and n not in watch_state["proj"]["nodes"]]
        inside = [p for p in only_restart if any(p.startswith(d + "/") for d in new_dirs)]
        only_watch = [n for n in watch_state["proj"]["nodes"] if n not in fork_state["proj"]["nodes"]]
        if inside and not only_watch:
            return "missed-file-in-directory-created-while-watching"
    if det_out:
        # known finding F20: the user changed a path while its node was detached
        return "path-changed-while-its-node-was-detached"
    if stale:
        # known finding F5: in one of the two universes a step ran (or kept running) while its
        # re-running creator dropped or recycled it
        return cls + ":stale-child-of-rerunning-plan"
    return cls


def shrink(sc):
    yield from shrinkmod.shrink_history(sc)
    for k, ph in enumerate(sc["phases"]):
        for j in range(len(ph.get("raw", [])) - 1, -1, -1):
            out = copy.deepcopy(sc)
            del out["phases"][k]["raw"][j]
            yield out
        if ph.get("early"):
            out = copy.deepcopy(sc)
            out["phases"][k]["early"] = False
            yield out
        if ph.get("op_gap"):
            out = copy.deepcopy(sc)
            out["phases"][k]["op_gap"] = 0
            yield out
