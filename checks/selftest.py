"""Determinism self-test: the same scenario seed must give the same event-log fingerprint
twice in one process, in a fresh interpreter, and under another PYTHONHASHSEED."""

import concurrent.futures
import importlib
import json
import multiprocessing
import os
import shutil
import subprocess
import sys
import time

from sim.chooser import derive_seed

HERE = os.path.dirname(os.path.dirname(os.path.abspath(__file__)))


def _fingerprints(modname, seeds):
    import logging
    import warnings

    warnings.simplefilter("ignore")
    logging.getLogger("asyncio").setLevel(logging.CRITICAL)
    logging.getLogger("stepup").propagate = False
    from sim.universe import scratch_base

    mod = importlib.import_module(modname)
    out = {}
    for s in seeds:
        try:
            sc = mod.gen_scenario(s, "quick", {})
            res = mod.run_scenario(sc)
            out[str(s)] = res.fingerprint
        except Exception as exc:  # noqa: BLE001
            out[str(s)] = f"EXC {exc!r}"
        finally:
            shutil.rmtree(scratch_base(), ignore_errors=True)
    return out


def main(argv):
    if len(argv) >= 3 and argv[0] == "--child":
        seeds = json.loads(argv[2])
        print("FP " + json.dumps(_fingerprints(argv[1], seeds)))
        return 0
    mods = argv[0].split(",") if argv else ["checks.c01"]
    n = int(argv[1]) if len(argv) > 1 else 96
    rc = 0
    for modname in mods:
        t0 = time.time()
        seeds = [derive_seed("selftest", modname, i) for i in range(n)]
        ctx = multiprocessing.get_context("fork")
        chunks = [seeds[i::16] for i in range(16)]
        with concurrent.futures.ProcessPoolExecutor(16, mp_context=ctx) as pool:
            first = {}
            for d in pool.map(_fingerprints, [modname] * 16, chunks):
                first.update(d)
        # second pass: other worker count (8), same interpreter settings
        chunks = [seeds[i::8] for i in range(8)]
        with concurrent.futures.ProcessPoolExecutor(8, mp_context=ctx) as pool:
            second = {}
            for d in pool.map(_fingerprints, [modname] * 8, chunks):
                second.update(d)
        # third pass: fresh interpreters under another hash seed
        third = {}
        procs = []
        for k in range(8):
            env = dict(os.environ, PYTHONHASHSEED=str(1234 + k), VERIF_KEEP_HASHSEED="1")
            cmd = [sys.executable, "-c",
                   "import sys; sys.path.insert(0, %r); from checks import selftest; "
                   "sys.exit(selftest.main(sys.argv[1:]))" % HERE,
                   "--child", modname, json.dumps(seeds[k::8])]
            procs.append(subprocess.Popen(cmd, env=env, stdout=subprocess.PIPE, text=True, cwd=HERE))
        for p in procs:
            out, _ = p.communicate(timeout=1800)
            for line in out.splitlines():
                if line.startswith("FP "):
                    third.update(json.loads(line[3:]))
        bad12 = [s for s in first if first[s] != second.get(s)]
        bad13 = [s for s in first if first[s] != third.get(s)]
        exc = [s for s in first if str(first[s]).startswith("EXC")]
        print(f"{modname}: {len(first)} seeds; same-settings mismatches={len(bad12)} "
              f"other-hashseed mismatches={len(bad13)} exceptions={len(exc)} wall={time.time()-t0:.0f}s")
        for s in (bad12 + bad13 + exc)[:5]:
            print("  seed", s, first[s], second.get(s), third.get(s))
        if bad12 or bad13 or exc:
            rc = 1
    return rc


if __name__ == "__main__":
    sys.exit(main(sys.argv[1:]))
