"""C16: remote calls are answered exactly once and correctly paired."""

import asyncio
import copy
import os
import pickle
import random

from sim import history, seams
from sim.chooser import Chooser, derive_seed
from sim.runner import Result
from sim.simnet import SimNet
from sim.simproc import SimProc
from sim.world import World

PROPERTY = "C16"
ORACLE = "R-rpc: sequential model of a test handler; per call delivered in full exactly one reply frame with its id and the expected value or exception class; nothing invoked that is not exposed; other connections complete within a bounded simulated time after the last fault; the server task never raises and ends after stop"
DESIGN_REF = "DESIGN.md section 7 (C16), 3.3"
RULE = (
    "the real SocketRPCServer with a test handler (echo, slow, usage failure, internal failure, "
    "unpicklable result, sync method, non-exposed method, big payload, a handler whose own awaitable is cancelled from inside the server) serves 1-5 connections: "
    "real SocketAsyncRPCClients with up to 12 calls in flight, real SocketSyncRPCClients in baton "
    "threads, and raw byte-level clients that send hand-built frames; every write is fragmented "
    "by the seeded transport (down to single bytes); injected faults: disconnect at an arbitrary "
    "byte offset of a request, right after a complete request, garbage bytes, oversized header, "
    "a peer that stops reading. Distinct = distinct client scripts; non-trivial = at least one "
    "fault fired or at least two calls were in flight on one connection. One scenario in eight "
    "is a real director build (DirectorHandler) with 1-3 hostile peers on its socket (garbage, "
    "oversized header, partial frame then close, idle connection, unknown procedure, attribute "
    "of the handler that is not exposed, ill-typed arguments), compared with the same build "
    "without them."
)
ASSUMPTIONS = [
    "a Unix stream socket neither loses, duplicates nor reorders bytes; only close, abort, garbage and stall are injected",
]

SOCK = "/sim/rpc.sock"


def _make_handler():
    from stepup.core.exceptions import ConsistencyError, GraphError, PathError
    from stepup.core.rpc import allow_rpc

    class Handler:
        def __init__(self):
            self.invoked = []

        @allow_rpc
        async def echo(self, token, payload=None):
            self.invoked.append(("echo", token))
            return ("echo", token, payload)

        @allow_rpc
        async def slow(self, token, delay):
            self.invoked.append(("slow", token))
            await asyncio.sleep(delay)
            return ("slow", token)

        @allow_rpc
        async def fail_usage(self, token, kind):
            self.invoked.append(("fail_usage", token))
            if kind == 0:
                raise GraphError(f"usage {token}")
            raise PathError(f"usage {token}")

        @allow_rpc
        async def fail_internal(self, token, kind):
            self.invoked.append(("fail_internal", token))
            if kind == 0:
                raise ConsistencyError(f"internal {token}")
            raise ValueError(f"internal {token}")

        @allow_rpc
        async def unpicklable(self, token):
            self.invoked.append(("unpicklable", token))
            return lambda: token

        @allow_rpc
        def sync_method(self, token):
            self.invoked.append(("sync_method", token))
            return ("sync", token)

        @allow_rpc
        async def big(self, token, n):
            self.invoked.append(("big", token))
            return ("big", token, "x" * n)

        @allow_rpc
        async def cancelled_inside(self, token, kind):
            """A handler whose own awaitable is cancelled by somebody else in the server."""
            self.invoked.append(("cancelled_inside", token))
            # what reaches the server's wrapper is the CancelledError raised at the handler's
            # own await (an inner future or task that somebody else in the server cancelled);
            # it is raised here directly, after a suspension, so that nothing (timer, inner
            # task) outlives the call
            await asyncio.sleep(0.01 if kind else 0.05)
            raise asyncio.CancelledError()

        async def hidden(self, token):
            self.invoked.append(("hidden", token))
            return "SECRET"

    return Handler()


CALLS = ["echo", "echo", "slow", "fail_usage", "fail_internal", "unpicklable", "sync_method", "big", "hidden", "nosuch", "badargs", "echo_big", "cancelled_inside"]


def gen_director_scenario(seed, tier):
    """A real director build with hostile peers on its socket."""
    sc = history.gen_history(seed, never=("bad",), nphases=1, max_size=5)
    rng = random.Random(derive_seed(seed, "c16d"))
    peers = []
    for _ in range(rng.randint(1, 3)):
        peers.append({
            "kind": rng.choice(["garbage", "oversize_header", "partial_then_close", "connect_and_hold",
                                "unknown_procedure", "hidden_attribute", "bad_arguments"]),
            "at": rng.choice([0.0, 0.02, 0.1, 0.3, 0.8]),
            "n": rng.randint(1, 40),
        })
    sc["peers"] = peers
    sc["workload"] = "director"
    sc["check"] = PROPERTY
    return sc


def gen_scenario(seed, tier="quick", opts=None):
    if seed % 8 == 0:
        return gen_director_scenario(seed, tier)
    rng = random.Random(seed)
    nconn = rng.randint(1, 5)
    clients = []
    tok = 0
    for c in range(nconn):
        kind = rng.choice(["async", "async", "sync", "raw"])
        ncalls = rng.randint(1, 12 if kind == "async" else 6)
        calls = []
        for _ in range(ncalls):
            tok += 1
            name = rng.choice(CALLS)
            calls.append({"name": name, "token": tok, "arg": rng.randint(0, 1), "delay": rng.choice([0, 0.01, 0.2, 1.5]),
                          "size": rng.choice([0, 10, 5000, 70000]), "gap": rng.choice([0, 0, 0.01, 0.3])})
        fault = None
        r = rng.random()
        if r < 0.45:
            fk = rng.choice(["cut_mid_request", "cut_after_request", "garbage", "oversize_header", "stall_reader", "abort"])
            fault = {"kind": fk, "at_call": rng.randrange(ncalls), "offset": rng.randint(0, 40)}
        clients.append({"kind": kind, "calls": calls, "fault": fault, "start": rng.choice([0, 0, 0.05, 0.5]),
                        "concurrent": rng.random() < 0.7})
    return {"seed": seed, "clients": clients, "schedule": {"seed": derive_seed(seed, "sched"), "mode": "seeded"},
            "maxlat": rng.choice([0, 5, 30, 200]), "check": PROPERTY}


def expected(call):
    """What the client must observe for a call that is delivered in full and answered."""
    n = call["name"]
    t = call["token"]
    if n == "echo":
        return ("value", ("echo", t, None))
    if n == "echo_big":
        return ("value", ("echo", t, "p" * call["size"]))
    if n == "slow":
        return ("value", ("slow", t))
    if n == "fail_usage":
        return ("error", "GraphError" if call["arg"] == 0 else "PathError")
    if n in ("fail_internal", "unpicklable", "hidden", "nosuch", "badargs", "cancelled_inside"):
        return ("error", "RPCError")
    if n == "sync_method":
        return ("value", ("sync", t))
    if n == "big":
        return ("value", ("big", t, "x" * call["size"]))
    raise ValueError(n)


def call_args(call):
    n = call["name"]
    t = call["token"]
    if n == "echo":
        return "echo", (t,), {}
    if n == "echo_big":
        return "echo", (t, "p" * call["size"]), {}
    if n == "slow":
        return "slow", (t, call["delay"]), {}
    if n in ("fail_usage", "fail_internal", "cancelled_inside"):
        return n, (t, call["arg"]), {}
    if n in ("unpicklable", "sync_method", "hidden"):
        return n, (t,), {}
    if n == "big":
        return "big", (t, call["size"]), {}
    if n == "nosuch":
        return "no_such_procedure", (t,), {}
    if n == "badargs":
        return "echo", (), {"wrong_keyword": t}
    raise ValueError(n)


class SyncClientProc(SimProc):
    """A baton thread that drives the real SocketSyncRPCClient."""

    def __init__(self, world, spec, outcomes):
        super().__init__(world, "sync-client", False, {"STEPUP_DIRECTOR_SOCKET": SOCK}, ".", None)
        self.spec = spec
        self.outcomes = outcomes

    def _run_program(self):
        from stepup.core.rpc import SocketSyncRPCClient

        client = SocketSyncRPCClient(SOCK)
        self.client = client
        fault = self.spec["fault"]
        for k, call in enumerate(self.spec["calls"]):
            if call["gap"]:
                self.sleep(call["gap"])
            name, args, kwargs = call_args(call)
            if fault and fault["at_call"] == k and fault["kind"] in ("cut_after_request", "abort"):
                self.die_after_sends = 1
            try:
                value = client(name, *args, **kwargs)
                self.outcomes[call["token"]] = ("value", value)
            except Exception as exc:  # noqa: BLE001
                self.outcomes[call["token"]] = ("error", type(exc).__name__, str(exc)[:200])
                if client._broken or client._closed:
                    break
        try:
            client.close()
        except Exception:  # noqa: BLE001
            pass
        return 0


async def run_async_client(world, spec, outcomes, stats):
    from stepup.core.rpc import SocketAsyncRPCClient

    await asyncio.sleep(spec["start"])
    client = SocketAsyncRPCClient(SOCK)
    fault = spec["fault"]

    async def one(k, call):
        if call["gap"]:
            await asyncio.sleep(call["gap"])
        name, args, kwargs = call_args(call)
        try:
            value = await client(name, *args, **kwargs)
            outcomes[call["token"]] = ("value", value)
        except Exception as exc:  # noqa: BLE001
            outcomes[call["token"]] = ("error", type(exc).__name__, str(exc)[:200])

    async def injector():
        if fault is None:
            return
        await asyncio.sleep(spec["calls"][fault["at_call"]]["gap"] + 0.001 * fault["offset"])
        if client._writer is None:
            return
        if fault["kind"] in ("abort", "cut_mid_request", "cut_after_request"):
            client._writer.transport.abort()
            stats["fault.async_abort"] += 1
        elif fault["kind"] == "stall_reader":
            client._writer.transport.pause_reading()
            stats["fault.stall_reader"] += 1
            await asyncio.sleep(5.0)
            client._writer.transport.resume_reading()

    if spec["concurrent"]:
        await asyncio.gather(injector(), *(one(k, c) for k, c in enumerate(spec["calls"])))
    else:
        inj = asyncio.ensure_future(injector())
        for k, c in enumerate(spec["calls"]):
            await one(k, c)
        await inj
    try:
        await client.close()
    except Exception as exc:  # noqa: BLE001
        stats["async_close_error." + type(exc).__name__] += 1


async def run_raw_client(world, spec, raw_log, stats):
    """Hand-built frames over a bare connection; replies are parsed from the byte stream."""
    from stepup.core.rpc import RPCCall, _encode_body, _encode_message

    await asyncio.sleep(spec["start"])
    try:
        reader, writer = await asyncio.open_unix_connection(SOCK)
    except OSError:
        return
    fault = spec["fault"]
    sent_full = []
    closed = False
    for k, call in enumerate(spec["calls"]):
        if call["gap"]:
            await asyncio.sleep(call["gap"])
        name, args, kwargs = call_args(call)
        frame = _encode_message(1000 + call["token"], _encode_body(RPCCall(name, args, kwargs)))
        if fault and fault["at_call"] == k:
            kind = fault["kind"]
            if kind == "cut_mid_request":
                cut = min(len(frame) - 1, fault["offset"])
                writer.write(frame[:cut])
                stats["fault.cut_mid_request"] += 1
                await asyncio.sleep(0.05)
                writer.transport.abort() if fault["offset"] % 2 else writer.close()
                closed = True
                break
            if kind == "garbage":
                writer.write(os.urandom(0) + bytes((7 * (i + fault["offset"])) % 256 for i in range(24 + fault["offset"])))
                stats["fault.garbage"] += 1
                sent_full_after_garbage = True
                await asyncio.sleep(0.05)
                break
            if kind == "oversize_header":
                writer.write((5).to_bytes(8, "big") + (2**40).to_bytes(8, "big"))
                stats["fault.oversize_header"] += 1
                await asyncio.sleep(0.05)
                break
            if kind == "cut_after_request":
                writer.write(frame)
                sent_full.append(call)
                stats["fault.cut_after_request"] += 1
                await asyncio.sleep(0.001 * fault["offset"])
                writer.close()
                closed = True
                break
            if kind == "stall_reader":
                writer.transport.pause_reading()
                stats["fault.stall_reader"] += 1
        writer.write(frame)
        sent_full.append(call)
    # read whatever comes back until EOF or quiet
    replies = []
    buf = b""
    if not closed:
        if fault and fault["kind"] == "stall_reader":
            await asyncio.sleep(3.0)
            writer.transport.resume_reading()
        try:
            while True:
                chunk = await asyncio.wait_for(reader.read(65536), timeout=8.0)
                if not chunk:
                    break
                buf += chunk
                while len(buf) >= 16:
                    cid = int.from_bytes(buf[:8], "big")
                    size = int.from_bytes(buf[8:16], "big")
                    if len(buf) < 16 + size:
                        break
                    replies.append((cid, buf[16 : 16 + size] if size else None))
                    buf = buf[16 + size :]
                if len({c for c, _ in replies}) >= len(sent_full):
                    break
        except (asyncio.TimeoutError, ConnectionError):
            pass
        writer.close()
    raw_log.append({"sent_full": sent_full, "replies": replies, "closed_early": closed, "leftover": len(buf),
                    "fault": None if fault is None else fault["kind"],
                    "has_sentinel_call": any(c["name"] == "unpicklable" for c in spec["calls"])})


async def _main(world, sc, ctx):
    from stepup.core.rpc import SocketRPCServer

    loop = asyncio.get_running_loop()
    world.net = SimNet(loop, world.chooser, max_latency_ms=sc["maxlat"])
    handler = _make_handler()
    ctx["handler"] = handler
    stop = asyncio.Event()
    server = SocketRPCServer(handler, SOCK)
    server_task = asyncio.create_task(server.serve(stop), name="rpc-server")
    await asyncio.sleep(0)
    tasks = []
    procs = []
    for spec in sc["clients"]:
        if spec["kind"] == "async":
            tasks.append(asyncio.create_task(run_async_client(world, spec, ctx["outcomes"], ctx["stats"])))
        elif spec["kind"] == "raw":
            tasks.append(asyncio.create_task(run_raw_client(world, spec, ctx["raw"], ctx["stats"])))
        else:
            p = SyncClientProc(world, spec, ctx["outcomes"])
            procs.append(p)

            async def runp(p=p, spec=spec):
                await asyncio.sleep(spec["start"])
                await p.run()

            tasks.append(asyncio.create_task(runp()))
    # a witness connection that must be served whatever the others do
    from stepup.core.rpc import SocketAsyncRPCClient

    async def witness():
        await asyncio.sleep(0.7)
        c = SocketAsyncRPCClient(SOCK)
        t0 = loop.time()
        v = await asyncio.wait_for(c("echo", -1), timeout=30.0)
        ctx["witness"] = (v, loop.time() - t0)
        await c.close()

    tasks.append(asyncio.create_task(witness()))
    done = await asyncio.gather(*tasks, return_exceptions=True)
    ctx["client_exceptions"] = [repr(d) for d in done if isinstance(d, BaseException)]
    stop.set()
    try:
        await asyncio.wait_for(server_task, timeout=60.0)
        ctx["server_result"] = "stopped"
    except Exception as exc:  # noqa: BLE001
        ctx["server_result"] = f"raised {type(exc).__name__}: {exc}"
    # `Server.wait_closed` waits for the transports, not for the connection coroutines: give
    # these a bounded simulated time to unwind before judging.
    for _ in range(300):
        if not server._connections:
            break
        await asyncio.sleep(0.1)
    ctx["open_connections"] = len(server._connections)
    ctx["leftover_tasks"] = sorted(
        t.get_name() for t in asyncio.all_tasks() if t is not asyncio.current_task() and not t.done()
    )
    return None


async def _hostile_peer(world, peer, log):
    """One connection to the director's own socket that does not speak the protocol."""
    from stepup.core.rpc import RPCCall, _encode_body, _encode_message
    from sim.world import SOCKET_PATH

    for _ in range(100_000):
        if world.net is not None and SOCKET_PATH in world.net.servers:
            break
        await asyncio.sleep(0.01)
    await asyncio.sleep(peer["at"])
    try:
        reader, writer = await asyncio.open_unix_connection(SOCKET_PATH)
    except OSError:
        log.append((peer["kind"], "refused"))
        return
    kind = peer["kind"]
    n = peer["n"]
    replies = b""
    try:
        if kind == "garbage":
            writer.write(bytes((11 * (i + n)) % 256 for i in range(16 + n)))
        elif kind == "oversize_header":
            writer.write((3).to_bytes(8, "big") + (2**41 + n).to_bytes(8, "big"))
        elif kind == "partial_then_close":
            frame = _encode_message(1, _encode_body(RPCCall("get_step_info", (1,), {})))
            writer.write(frame[: max(1, min(len(frame) - 1, n))])
            await asyncio.sleep(0.05)
            writer.close()
            log.append((kind, "closed"))
            return
        elif kind == "connect_and_hold":
            await asyncio.sleep(2.0 + n)
        elif kind == "unknown_procedure":
            writer.write(_encode_message(7, _encode_body(RPCCall("no_such_procedure", (n,), {}))))
        elif kind == "hidden_attribute":
            # attributes of the handler that are not exposed with @allow_rpc
            name = ["interrupt", "suspend", "_stop_scheduling", "_interrupt", "workflow", "__init__"][n % 6]
            writer.write(_encode_message(8, _encode_body(RPCCall(name, (), {}))))
        elif kind == "bad_arguments":
            writer.write(_encode_message(9, _encode_body(RPCCall("define_step", (), {"nonsense": n}))))
        try:
            replies = await asyncio.wait_for(reader.read(65536), timeout=3.0)
        except (asyncio.TimeoutError, ConnectionError):
            pass
        log.append((kind, len(replies), replies[:16].hex()))
    finally:
        try:
            writer.close()
        except Exception:  # noqa: BLE001
            pass


def run_director_scenario(sc) -> Result:
    """The same project is built twice: undisturbed, and with hostile peers on the socket."""
    from sim.universe import Universe
    from stepup.core.rpc import RemoteFailure

    res = Result()
    res.signature = history.scenario_signature(sc) + str(sc["peers"])
    base = history.scratch_base()
    sched = sc["schedule"]
    outcomes = []
    for name, peers in (("Q", []), ("H", sc["peers"])):
        ch = Chooser(sched["seed"], mode=sched.get("mode", "seeded"))
        uni = Universe(os.path.join(base, f"{sc['seed']}-{name}"), ch, name=name)
        uni.sync_tree(sc["phases"][0]["project"])
        log = []

        async def user(world, peers=peers, log=log):
            await asyncio.gather(*(_hostile_peer(world, p, log) for p in peers))

        r = uni.build(dict(sc["phases"][0]["cfg"]), scratch=True, user=user if peers else None)
        if r.harness_error is not None:
            raise r.harness_error
        res.builds += 1
        res.vtime += r.vtime
        outcomes.append((r, uni.projection() if r.ok else None, uni.tree() if r.ok else None, log))
        for k, v in uni.world.stats.items():
            res.stats[k] += v
        uni.destroy()
    (rq, pq, tq, _), (rh, ph, th, log) = outcomes
    res.fingerprint = repr((rq.rc_value, rh.rc_value, log))
    for kind, *rest in log:
        res.stats["fault.peer_" + kind] += 1
    if rh.exception is not None:
        res.violate("R-rpc/director", "director-raised", f"director raised {type(rh.exception).__name__}: {rh.exception} with hostile peers {sc['peers']}", "director-raised")
    elif rh.hang is not None:
        res.violate("R-rpc/director", "director-blocked", f"director does not finish with hostile peers {sc['peers']}: {rh.hang}", "director-blocked")
    elif rq.ok:
        if rq.rc_value != rh.rc_value:
            res.violate("R-rpc/director", "build-disturbed", f"return code {rh.returncode} with hostile peers, {rq.returncode} without", "build-disturbed")
        elif rq.rc_value == 0:
            from sim import dbview

            d = dbview.diff_projections(history.strip_for_twin(ph), history.strip_for_twin(pq))
            if d or th != tq:
                res.violate("R-rpc/director", "build-disturbed", "graph or outputs differ from the undisturbed build: " + "; ".join(d[:4]), "build-disturbed")
    # a reply to a hostile request is an error reply, never a value
    for entry in log:
        if len(entry) == 3 and entry[0] in ("unknown_procedure", "hidden_attribute", "bad_arguments") and entry[1] == 0:
            res.stats["probe.hostile_request_unanswered"] += 1
    res.nontrivial = bool(log)
    res.sample = {"seed": sc["seed"], "workload": "director", "peers": sc["peers"], "log": [list(map(str, e)) for e in log][:4], "rc": rh.rc_value}
    return res


def run_scenario(sc) -> Result:
    import hashlib
    import json
    import logging

    if sc.get("workload") == "director":
        return run_director_scenario(sc)
    res = Result()
    res.signature = hashlib.sha256(json.dumps(sc["clients"], sort_keys=True).encode()).hexdigest()[:16]
    base = history.scratch_base()
    root = os.path.join(base, f"{sc['seed']}-rpc")
    os.makedirs(root, exist_ok=True)
    ch = Chooser(sc["schedule"]["seed"], mode=sc["schedule"].get("mode", "seeded"))
    w = World(root, {"PATH": "/usr/bin"}, ch)
    w.snapshots_enabled = False
    import collections

    ctx = {"outcomes": {}, "raw": [], "stats": collections.Counter(), "witness": None}
    logging.getLogger("stepup.core.rpc").setLevel(logging.ERROR)
    r = w.run(lambda world: _main(world, sc, ctx), max_ticks=300_000, max_vtime=5_000.0)
    res.builds = 1
    res.vtime = r.vtime
    res.fingerprint = hashlib.sha256(repr((sorted(ctx["outcomes"].items(), key=lambda kv: kv[0]), ctx["raw"], ctx.get("witness"), ctx.get("server_result"))).encode()).hexdigest()[:24]
    if r.harness_error is not None:
        raise r.harness_error
    if r.exception is not None:
        raise r.exception
    if r.hang is not None:
        res.violate("R-rpc/liveness", "hang", f"simulation does not finish: {r.hang}", "hang")
        return res
    for k, v in ctx["stats"].items():
        res.stats[k] += v
    for k, v in w.stats.items():
        res.stats[k] += v
    for k, v in (w.net.stats.items() if w.net else []):
        res.stats["net." + k] += v
    handler = ctx["handler"]
    invoked_names = [n for n, t in handler.invoked]
    if "hidden" in invoked_names:
        res.violate("R-rpc/exposure", "hidden-invoked", "a procedure without @allow_rpc was invoked", "hidden-invoked")
    inv_count = collections.Counter(handler.invoked)
    dup = [k for k, n in inv_count.items() if n > 1]
    if dup:
        res.violate("R-rpc/once", "invoked-twice", f"procedures invoked more than once for one call: {dup[:3]}", "invoked-twice")
    calls_by_token = {}
    faulty_conn_tokens = set()
    sentinel_conn_tokens = set()
    for spec in sc["clients"]:
        for k, call in enumerate(spec["calls"]):
            calls_by_token[call["token"]] = (spec, k, call)
            if spec["fault"] is not None and spec["fault"]["kind"] != "stall_reader":
                faulty_conn_tokens.add(call["token"])
            # By design the server ends a connection after it had to send the "no reply is
            # coming" sentinel (an unpicklable result): the other calls of that one connection
            # may then fail with a connection error, never with a wrong value.
            if any(c["name"] == "unpicklable" for c in spec["calls"]):
                faulty_conn_tokens.add(call["token"])
                sentinel_conn_tokens.add(call["token"])
    nflight = 0
    for tok, outcome in ctx["outcomes"].items():
        spec, k, call = calls_by_token[tok]
        exp = expected(call)
        if outcome[0] == "value":
            if exp != ("value", outcome[1]):
                res.violate("R-rpc/pairing", "wrong-reply",
                            f"call {call['name']}#{tok} ({spec['kind']} client) returned {str(outcome[1])[:80]!r}, expected {str(exp)[:80]}",
                            "wrong-reply")
        else:
            got = outcome[1]
            if exp[0] == "error" and exp[1] == got:
                continue
            if tok in faulty_conn_tokens and got in ("ConnectionResetError", "RPCClientUnusableError", "BrokenPipeError", "ConnectionAbortedError", "ConnectionError", "EOFError", "IncompleteReadError"):
                res.stats["calls_lost_to_injected_fault"] += 1
                continue
            if tok in sentinel_conn_tokens and got == "RPCError":
                res.stats["calls_lost_to_sentinel_teardown"] += 1
                continue
            if spec["kind"] == "sync" and got in ("RPCClientUnusableError",):
                continue
            res.violate("R-rpc/pairing", "wrong-error",
                        f"call {call['name']}#{tok} ({spec['kind']} client, fault={spec['fault']}) raised {got}: {outcome[2]}, expected {exp}",
                        f"wrong-error:{got}")
    # raw clients: exactly one reply per request delivered in full, with its id
    for entry in ctx["raw"]:
        ids = [cid for cid, body in entry["replies"]]
        sent_ids = {1000 + c["token"] for c in entry["sent_full"]}
        for cid in ids:
            if cid not in sent_ids:
                res.violate("R-rpc/pairing", "reply-for-unknown-id", f"raw client received a reply for id {cid} it never sent", "unknown-id")
        cnt = collections.Counter(ids)
        for cid, n in cnt.items():
            if n > 1:
                res.violate("R-rpc/once", "duplicate-reply", f"raw client received {n} replies for id {cid}", "duplicate-reply")
        if not entry["closed_early"]:
            for c in entry["sent_full"]:
                cid = 1000 + c["token"]
                if cid not in cnt:
                    if entry["fault"] in (None, "stall_reader") and not entry["has_sentinel_call"]:
                        res.violate("R-rpc/once", "no-reply", f"raw call {c['name']}#{c['token']} was delivered in full on a healthy connection and never answered", "no-reply")
                    res.stats["raw_unanswered_on_faulted_connection"] += 1
                    continue
                body = next(b for i, b in entry["replies"] if i == cid)
                exp = expected(c)
                if body is None:
                    if c["name"] != "unpicklable":
                        res.violate("R-rpc/pairing", "empty-reply", f"raw call {c['name']} got the no-reply sentinel", "empty-reply")
                    continue
                val = pickle.loads(body)
                from stepup.core.rpc import RemoteFailure

                if isinstance(val, RemoteFailure):
                    if exp[0] != "error":
                        res.violate("R-rpc/pairing", "wrong-reply", f"raw call {c['name']}#{c['token']} failed remotely: {val.qualname}", "wrong-reply")
                    elif exp[1] != "RPCError" and not val.usage:
                        res.violate("R-rpc/class", "usage-flag", f"{c['name']}: usage error not flagged as such", "usage-flag")
                elif exp != ("value", val):
                    res.violate("R-rpc/pairing", "wrong-reply", f"raw call {c['name']}#{c['token']} returned {str(val)[:80]!r}", "wrong-reply")
    # survival and liveness
    if ctx.get("server_result") != "stopped":
        res.violate("R-rpc/server", "server-raised", f"server task: {ctx.get('server_result')}", "server-raised")
    if ctx.get("open_connections"):
        res.violate("R-rpc/server", "connections-left", f"{ctx['open_connections']} connections still registered after stop", "connections-left")
    if ctx.get("leftover_tasks"):
        res.violate("R-rpc/server", "tasks-left", f"tasks still pending 30 simulated seconds after stop: {ctx['leftover_tasks'][:6]}", "tasks-left")
    wit = ctx.get("witness")
    if wit is None:
        res.violate("R-rpc/liveness", "witness-not-served", f"a healthy connection was not served: {ctx.get('client_exceptions')}", "witness-not-served")
    elif wit[0] != ("echo", -1, None):
        res.violate("R-rpc/pairing", "wrong-reply", f"witness got {wit[0]!r}", "wrong-reply")
    elif wit[1] > 10.0:
        res.violate("R-rpc/liveness", "witness-slow", f"witness call took {wit[1]:.1f} simulated seconds", "witness-slow")
    for e in ctx.get("client_exceptions", []):
        if "TimeoutError" in e:
            res.violate("R-rpc/liveness", "client-timeout", e[:300], "client-timeout")
    nfaults = sum(v for k, v in ctx["stats"].items() if k.startswith("fault."))
    res.nontrivial = nfaults > 0 or any(s["kind"] == "async" and s["concurrent"] and len(s["calls"]) > 1 for s in sc["clients"])
    res.stats["calls"] += len(calls_by_token)
    res.stats["invocations"] += len(handler.invoked)
    res.sample = {"seed": sc["seed"], "clients": [{"kind": s["kind"], "ncalls": len(s["calls"]), "fault": s["fault"], "calls": [c["name"] for c in s["calls"]][:6]} for s in sc["clients"]],
                  "witness_latency": None if wit is None else round(wit[1], 3)}
    return res


def shrink(sc):
    if sc.get("workload") == "director":
        from sim import shrink as shrinkmod

        for k in range(len(sc["peers"])):
            if len(sc["peers"]) > 1:
                out = copy.deepcopy(sc)
                del out["peers"][k]
                yield out
        for out in shrinkmod.shrink_history(sc):
            yield out
        return
    if sc["schedule"].get("mode") != "calm":
        out = copy.deepcopy(sc)
        out["schedule"] = {"seed": 0, "mode": "calm"}
        yield out
    n = len(sc["clients"])
    for k in range(n - 1, -1, -1):
        if n > 1:
            out = copy.deepcopy(sc)
            del out["clients"][k]
            yield out
    for k, spec in enumerate(sc["clients"]):
        if spec["fault"] is not None:
            out = copy.deepcopy(sc)
            out["clients"][k]["fault"] = None
            yield out
        for j in range(len(spec["calls"]) - 1, -1, -1):
            if len(spec["calls"]) > 1:
                out = copy.deepcopy(sc)
                del out["clients"][k]["calls"][j]
                f = out["clients"][k]["fault"]
                if f is not None and f["at_call"] >= len(out["clients"][k]["calls"]):
                    f["at_call"] = len(out["clients"][k]["calls"]) - 1
                yield out
