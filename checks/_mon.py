"""Shared workload for the monitor-based checks (C03, C09, C10, C12, C19)."""

import random

from sim import faults, history
from sim import monitors as M
from sim import shrink as shrinkmod
from sim.chooser import derive_seed
from sim.runner import Result

ALL = {
    "C09": (M.InvariantMonitor, M.ErrorClassMonitor),
    "C10": (M.DispatchMonitor,),
    "C12": (M.LimitMonitor,),
    "C03": (M.InputFinalityMonitor,),
    "C19": (M.ExitStatusMonitor,),
}


def gen_monitored(seed, tier, opts, always=(), never=(), fault_kinds=(), defer_caps=None,
                  nphases=None, max_size=None):
    opts = opts or {}
    max_size = max_size or (8 if tier == "quick" else 12)
    sc = history.gen_history(seed, always=always, never=never, max_size=max_size, nphases=nphases)
    rng = random.Random(derive_seed(seed, "faults"))
    sc["faults"] = {}
    for k, ph in enumerate(sc["phases"]):
        fl = faults.gen_faults(rng, list(fault_kinds)) if fault_kinds and rng.random() < 0.6 else []
        if fl:
            sc["faults"][str(k + 1)] = fl
        if defer_caps and rng.random() < 0.5:
            ph["cfg"]["defer_cap"] = rng.choice(defer_caps)
    return sc


def run_monitored(sc, prop, extra_check=None) -> Result:
    res = Result()
    res.signature = history.scenario_signature(sc) + ":" + str(sorted(sc.get("faults", {}).items()))[:200]
    mons = [M.StaleChildMonitor()]
    own = []
    for pid, classes in ALL.items():
        for cls in classes:
            m = cls()
            mons.append(m)
            if pid == prop:
                own.append(m)
    inj = None
    if sc.get("faults"):
        inj = faults.FaultInjector({int(k): v for k, v in sc["faults"].items()})
        mons.append(inj)
    run = history.run_history(sc, monitors=mons, take_temp=True)
    w = run.uni.world
    ncmd = history.collect(res, w, run.results)
    res.fingerprint = w.fingerprint()
    for r in run.results:
        if r.harness_error is not None:
            raise r.harness_error
    for m in mons:
        for k, v in m.counters.items():
            res.stats[f"{m.name}.{k}"] += v
        if m in own:
            for oracle, cls, msg, key in m.violations:
                res.violate(oracle, cls, msg, key)
        elif m.violations and m is not inj and m.name != "stale_child":
            res.stats[f"other_property_hits.{m.name}"] += len(m.violations)
    if inj is not None:
        res.stats["faults_fired"] += len(inj.fired)
    if any(r.hang is not None for r in run.results):
        res.stats["other_property_hits.hang"] += 1
        if prop != "C10":
            res.discard = "build hangs (judged by C10)"
    if extra_check is not None:
        extra_check(sc, run, res, mons, inj)
    res.nontrivial = ncmd >= 2
    res.sample = {
        "seed": sc["seed"],
        "features": sc["features"],
        "edits": [ph["edits"] for ph in sc["phases"]],
        "cfgs": [ph["cfg"] for ph in sc["phases"]],
        "faults": sc.get("faults"),
        "returncodes": [r.rc_value for r in run.results],
        "hang": [str(r.hang) for r in run.results if r.hang],
    }
    return run, res


def shrink(sc):
    import copy

    if sc.get("faults"):
        for k in list(sc["faults"]):
            out = copy.deepcopy(sc)
            del out["faults"][k]
            yield out
    for cand in shrinkmod.shrink_history(sc):
        if len(cand["phases"]) != len(sc["phases"]) and sc.get("faults"):
            cand = dict(cand)
            cand["faults"] = {
                k: v for k, v in sc["faults"].items() if int(k) <= len(cand["phases"])
            }
        yield cand
