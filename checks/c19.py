"""C19: exit status and final report tell the truth about the build."""

from checks import _mon

PROPERTY = "C19"
ORACLE = "R-exit: exit bits recomputed from the database at report time and the drain flag; partition of the pending summary"
DESIGN_REF = "DESIGN.md section 7 (C19)"
RULE = (
    "history scenarios that end badly on purpose (failing steps, undeclared inputs, undefined or "
    "insufficient resources, keep-going, small defer caps) plus injected drains, interrupts and "
    "step kills; judged at every end-of-build report. Distinct = distinct scenario rendering + "
    "fault plan; non-trivial = at least two commands ran."
)
ASSUMPTIONS = [
    "the INTERRUPTED and INTERNAL bits are added by the TUI, which is not run",
    "a product match sets FAILED only when nothing else went wrong (documented in report_unbuilt)",
]


def gen_scenario(seed, tier="quick", opts=None):
    sc = _mon.gen_monitored(
        seed, tier, opts, always=("bad",), fault_kinds=("drain", "interrupt", "kill_step"),
        defer_caps=(1, 2, 100),
    )
    # A shape in which several causes of "pending" meet: one step asks for more units of a
    # resource than exist, another one asks for an affordable amount of the same resource and
    # waits for a producer that fails (keep-going, so the build goes on and reports both).
    import random

    from sim.chooser import derive_seed
    from sim.gen import project_outputs

    rng = random.Random(derive_seed(seed, "c19"))
    if rng.random() < 0.25:
        k = rng.randrange(len(sc["phases"]))
        proj = sc["phases"][k]["project"]
        _outs, _vols, prod = project_outputs(proj)
        by_name = {st["name"]: st for st in proj["steps"]}
        consumers = []
        for st in proj["steps"]:
            for verb, arg in st["acts"]:
                if verb == "read" and arg in prod and prod[arg] != st["name"]:
                    consumers.append((st, by_name[prod[arg]]))
        others = [st for st in proj["steps"]]
        if consumers and len(others) >= 3:
            b, p = rng.choice(consumers)
            a = rng.choice([st for st in others if st is not b and st is not p])
            res = rng.choice(["cpu", "gpu"])
            a["resources"] = {res: 9}
            b["resources"] = {res: 1}
            if not any(x[0] == "exit" for x in p["acts"]):
                p["acts"].insert(0, ["exit", 1])
            cfg = sc["phases"][k]["cfg"]
            cfg["keep_going"] = True
            cfg.setdefault("available_resources", "cpu:2,gpu:2")
            sc["phases"][k]["edits"] = list(sc["phases"][k]["edits"]) + [f"{a['name']} wants 9 {res}, {b['name']} 1 {res} behind failing {p['name']}"]
    sc["check"] = PROPERTY
    return sc


def run_scenario(sc):
    run, res = _mon.run_monitored(sc, PROPERTY)
    return res


shrink = _mon.shrink
