"""C19: exit status and final report tell the truth about the build."""

from checks import _mon

PROPERTY = "C19"
ORACLE = "R-exit: exit bits recomputed from the database at report time and the drain flag; partition of the pending summary"
DESIGN_REF = "DESIGN.md section 7 (C19)"
RULE = (
    "history scenarios that end badly on purpose (failing steps, undeclared inputs, undefined or "
    "insufficient resources, keep-going, small defer caps) plus injected drains, interrupts and "
    "step kills; judged at every end-of-build report. Distinct = distinct scenario rendering + "
    "fault plan; non-trivial = at least two commands ran."
)
ASSUMPTIONS = [
    "the INTERRUPTED and INTERNAL bits are added by the TUI, which is not run",
    "a product match sets FAILED only when nothing else went wrong (documented in report_unbuilt)",
]


def gen_scenario(seed, tier="quick", opts=None):
    sc = _mon.gen_monitored(
        seed, tier, opts, always=("bad",), fault_kinds=("drain", "interrupt", "kill_step"),
        defer_caps=(1, 2, 100),
    )
    sc["check"] = PROPERTY
    return sc


def run_scenario(sc):
    run, res = _mon.run_monitored(sc, PROPERTY)
    return res


shrink = _mon.shrink
