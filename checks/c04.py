"""C04: rebuilding with nothing changed does nothing; edits rerun only their cone."""

import copy
import random

from sim import history
from sim import monitors as M
from sim import shrink as shrinkmod
from sim.chooser import derive_seed
from sim.gen import gen_config
from sim.runner import Result

PROPERTY = "C04"
ORACLE = "T-noop: zero commands, zero writes/removals, identical projection; cone closure over the graph for source-only edits"
DESIGN_REF = "DESIGN.md section 7 (C04)"
RULE = (
    "history scenarios (2-4 edit phases) that end in a successful build, followed by (1) a "
    "rebuild with no edit under a fresh configuration and schedule and (2) a rebuild after "
    "editing a random subset of data sources and step scripts. Distinct = distinct scenario "
    "rendering; non-trivial = the history ran at least two commands and ended with rc 0."
)
ASSUMPTIONS = [
    "plan scripts are not edited in the cone phase (the statement's 'declared by an executed step' clause would make the check vacuous)",
    "the no-op rebuild may use another job count/resource limit than the previous build",
]


def gen_scenario(seed, tier="quick", opts=None):
    sc = history.gen_history(seed, never=("bad",), masks=frozenset(["drop_producer", "move_step"]),
                             max_size=8 if tier == "quick" else 12)
    rng = random.Random(derive_seed(seed, "c04"))
    feats = sc["features"]
    last = sc["phases"][-1]
    # phase N+1: nothing changes
    cfg = gen_config(rng, feats, final=True)
    cfg.pop("do_clean", None)
    sc["phases"].append({"project": copy.deepcopy(last["project"]), "mode": "restart", "cfg": cfg, "edits": ["noop"]})
    # phase N+2: edit sources only
    proj = copy.deepcopy(last["project"])
    edited = []
    cand = sorted(proj["sources"])
    for k in rng.sample(cand, min(len(cand), rng.randint(1, 3))) if cand else []:
        proj["uid"] += 1
        proj["sources"][k] = f"u{proj['uid']}"
        edited.append(k)
    scripts = [st for st in proj["steps"] if st["script"]]
    if scripts and rng.random() < 0.5:
        st = rng.choice(scripts)
        acts = [a for a in st["acts"] if a[0] != "sleep"]
        acts.insert(0, ["sleep", rng.choice([0.01, 0.07, 0.4])])
        if acts != st["acts"]:
            st["acts"] = acts
            edited.append(st["script"])
    cfg2 = gen_config(rng, feats, final=True)
    cfg2.pop("do_clean", None)
    sc["phases"].append({"project": proj, "mode": "restart", "cfg": cfg2, "edits": ["edit_sources " + ",".join(edited)]})
    sc["edited"] = edited
    sc["check"] = PROPERTY
    return sc


def _graph_edges(snap):
    """consumes[step label] = set of input paths; produces[path] = step label; creator; nglob regexes."""
    import re

    consumes, produces, creator, globs = {}, {}, {}, {}
    for idep, (src, snk) in snap.deps.items():
        if src not in snap.nodes or snk not in snap.nodes:
            continue
        ks, kk = snap.nodes[src][0], snap.nodes[snk][0]
        if ks == "file" and kk == "step":
            consumes.setdefault(snap.nodes[snk][1], set()).add(snap.nodes[src][1])
        elif ks == "step" and kk == "file":
            produces[snap.nodes[snk][1]] = snap.nodes[src][1]
    for i, (kind, label, c, det) in snap.nodes.items():
        if kind == "step" and c in snap.nodes and snap.nodes[c][0] == "step":
            creator[label] = snap.nodes[c][1]
    for (node, pat, rx, data) in snap.nglob.values():
        if node in snap.nodes:
            globs.setdefault(snap.nodes[node][1], []).append(re.compile(rx))
    return consumes, produces, creator, globs


def run_scenario(sc) -> Result:
    res = Result()
    res.signature = history.scenario_signature(sc)
    n = len(sc["phases"])
    sc_hist = dict(sc)
    run = history.run_history(sc, upto=n - 2)
    w = run.uni.world
    uni = run.uni
    fps = []
    for r in run.results:
        if r.harness_error is not None:
            raise r.harness_error
    if not run.results or not run.last.ok or run.last.rc_value != 0:
        history.collect(res, w, run.results)
        res.discard = "history does not end in a successful build"
        res.fingerprint = w.fingerprint()
        return res
    before_proj = uni.projection()
    before_tree = uni.tree()
    before_snap = uni.snapshot()
    # (1) no-op rebuild
    ph = sc["phases"][n - 2]
    uni.sync_tree(ph["project"])
    log0 = len(w.log)
    r1 = uni.build(dict(ph["cfg"]))
    if r1.harness_error is not None:
        raise r1.harness_error
    if not r1.ok:
        res.violate("T-noop", "noop-failed", f"no-op rebuild did not complete: {r1.exception or r1.hang}", "noop-incomplete")
    else:
        cmds = [ev[5] for ev in w.log[log0:] if ev[2] == "cmd_start"]
        fsops = [ev for ev in w.log[log0:] if ev[2] == "fs" and not str(ev[5]).startswith(".stepup")]
        if cmds:
            res.violate("T-noop/commands", "noop-ran", f"no-op rebuild executed {len(cmds)} command(s): {cmds[:4]}", "noop-commands")
        if fsops:
            res.violate("T-noop/writes", "noop-wrote", f"no-op rebuild touched the tree: {[e[3:6] for e in fsops[:4]]}", "noop-fsops")
        if r1.rc_value != 0:
            res.violate("T-noop/rc", "noop-rc", f"no-op rebuild returned {r1.returncode}", "noop-rc")
        after_proj = uni.projection()
        from sim import dbview

        d = dbview.diff_projections(before_proj, after_proj, ignore_detached=False)
        if d:
            res.violate("T-noop/graph", "noop-graph", "\n".join(d[:10]), "noop-graph")
        if uni.tree() != before_tree:
            res.violate("T-noop/tree", "noop-tree", "tree changed by a no-op rebuild", "noop-tree")
        nskip = sum(1 for ev in w.log[log0:] if ev[2] == "report" and ev[3] == "SKIP")
        res.stats["probe.noop_skips"] += nskip
    # (2) source-only edits
    ph2 = sc["phases"][n - 1]
    snap_before = uni.snapshot()
    ops = uni.sync_tree(ph2["project"])
    log1 = len(w.log)
    r2 = uni.build(dict(ph2["cfg"]))
    if r2.harness_error is not None:
        raise r2.harness_error
    if r2.ok:
        snap_after = uni.snapshot()
        executed = []
        for ev in w.log[log1:]:
            if ev[2] == "cmd_start" and ev[5] not in executed:
                executed.append(ev[5])
        edited = set(op[1] for op in ops if op[0] in ("write", "remove", "chmod"))
        consumes, produces, creator, globs = {}, {}, {}, {}
        for snap in (snap_before, snap_after):
            c, p, cr, g = _graph_edges(snap)
            for k, v in c.items():
                consumes.setdefault(k, set()).update(v)
            produces.update(p)
            creator.update(cr)
            for k, v in g.items():
                globs.setdefault(k, []).extend(v)
        allowed = set()
        for s in executed:
            if consumes.get(s, set()) & edited:
                allowed.add(s)
            elif any(rx.fullmatch(p) for rx in globs.get(s, ()) for p in edited):
                allowed.add(s)
        changed = True
        while changed:
            changed = False
            for s in executed:
                if s in allowed:
                    continue
                if any(produces.get(p) in allowed for p in consumes.get(s, ())):
                    allowed.add(s)
                    changed = True
                elif creator.get(s) in allowed:
                    allowed.add(s)
                    changed = True
        extra = [s for s in executed if s not in allowed]
        res.stats["probe.cone_executed"] += len(executed)
        if extra:
            res.violate(
                "T-cone", "outside-cone",
                f"edited {sorted(edited)}; executed outside the cone: {extra[:4]} (executed: {executed[:8]})",
                "outside-cone",
            )
    ncmd = history.collect(res, w, run.results + [r1, r2])
    res.fingerprint = w.fingerprint()
    res.nontrivial = ncmd >= 2
    res.sample = {
        "seed": sc["seed"], "features": sc["features"],
        "edits": [p["edits"] for p in sc["phases"]],
        "returncodes": [r.rc_value for r in run.results] + [r1.rc_value, r2.rc_value],
    }
    return res


def shrink(sc):
    n = len(sc["phases"])
    for cand in shrinkmod.shrink_history(sc):
        # keep the two trailing phases (no-op and cone) structurally intact
        if len(cand["phases"]) < 3:
            continue
        if cand["phases"][-2]["edits"] != ["noop"]:
            continue
        cand["phases"][-2]["project"] = copy.deepcopy(cand["phases"][-3]["project"])
        yield cand
