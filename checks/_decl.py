"""Declaration-race workload for C08 and C15: concurrent sub-plans declare over a shared universe."""

import copy
import os
import random
import sqlite3

from sim import history
from sim import monitors as M
from sim.chooser import Chooser, derive_seed
from sim.progs import render_script
from sim.runner import Result
from sim.universe import Universe

PLAIN_FILES = ["u/a.txt", "u/b.txt", "u/c.txt", "t/x.txt", "t/y.txt", "t/sub/z.txt", "p_1.dat", "p_2.dat", "top.txt"]
HOSTILE_FILES = ["U/a.txt", "u/A.txt", "t%/x.txt", "t_/x.txt", "tX/x.txt", "é/f.txt", "u/a b.txt", "u/a[1].txt"]
NEW_PATHS = ["u/o1.txt", "u/o2.txt", "t/o.txt", "t/sub/o.txt", "p_3.dat", "w/o.txt", "top_o.txt", "U/o1.txt", "t_/o.txt"]
DIRS = ["u/", "t/", "t/sub/", "U/", "t_/", "t%/", "tX/", "é/"]
PATTERNS = ["u/*.txt", "p_${*n}.dat", "t/**/*.txt", "*.txt", "u/${*x}.txt", "t?/x.txt", "U/*.txt"]


def gen_decl_scenario(seed, tier="quick", hostile=None, faults=()):
    rng = random.Random(seed)
    hostile = rng.random() < 0.5 if hostile is None else hostile
    files = list(PLAIN_FILES) + (list(HOSTILE_FILES) if hostile else [])
    dirs = [d for d in DIRS if any(f.startswith(d) for f in files)]
    nplans = rng.randint(2, 4)
    plans = []
    uid = 0
    for k in range(nplans):
        ops = []
        nops = rng.randint(2, 7 if tier == "quick" else 10)
        for j in range(nops):
            uid += 1
            r = rng.random()
            if r < 0.22:
                op = ["static", rng.choice(files)]
            elif r < 0.34:
                op = ["static", rng.choice(dirs)]
            elif r < 0.42:
                op = ["static", rng.choice(PATTERNS)]
            elif r < 0.5:
                op = ["glob", rng.choice(PATTERNS), {}, f"g{uid}"]
            elif r < 0.82:
                kw = {"need": "OPTIONAL"}
                pool = files + NEW_PATHS
                if rng.random() < 0.6:
                    kw["inp"] = rng.sample(pool, rng.randint(1, 2))
                if rng.random() < 0.8:
                    kw["out"] = rng.sample(NEW_PATHS + files[:3], rng.randint(1, 2))
                if rng.random() < 0.3:
                    kw["vol"] = [rng.choice(NEW_PATHS)]
                name = f"X{rng.randint(0, 5)}" if rng.random() < 0.3 else f"X{k}_{j}"
                op = ["step", name, kw]
            elif r < 0.9:
                op = ["amend", {"out": [rng.choice(NEW_PATHS)]}]
            elif r < 0.95:
                op = ["amend", {"vol": [rng.choice(NEW_PATHS)]}]
            else:
                op = ["amend", {"inp": [rng.choice(files)]}]
            ops.append(["ignore_errors", [op]])
            if rng.random() < 0.08:
                # a step from A to B, then one request that makes the declaring plan a consumer
                # of B and the producer of A: the cycle only closes on the output side
                a, b = rng.sample(NEW_PATHS, 2)
                ops.append(["ignore_errors", [["step", f"CY{k}_{j}", {"inp": [a], "out": [b], "need": "OPTIONAL"}]]])
                ops.append(["ignore_errors", [["amend", {"inp": [b], "out": [a]}]]])
            if rng.random() < 0.25:
                ops.append(["ignore_errors", [copy.deepcopy(op)]])  # repeat
            if rng.random() < 0.5:
                ops.append(["sleep", rng.choice([0.0, 0.01, 0.05, 0.2])])
        plans.append(ops)
    sc = {
        "seed": seed, "hostile": hostile, "files": files, "plans": plans,
        "njob": rng.choice([nplans + 1, 8]),
        "schedule": {"mode": "seeded", "seed": derive_seed(seed, "sched")},
        "faults": [],
    }
    for kind in faults:
        if rng.random() < 0.5:
            if kind == "client_death":
                sc["faults"].append({"kind": kind, "plan": rng.randrange(nplans), "after_sends": rng.randint(1, 8),
                                     "goodbye": derive_seed(seed, "goodbye") % 2 == 0})
            elif kind == "sql":
                sc["faults"].append({"kind": kind, "nth_rpc_statement": rng.randint(1, 120)})
    return sc


def render_decl(sc):
    out = {}
    for f in sc["files"]:
        out[f] = (f"src:{f}\n", 0o644)
    names = [f"sp{k}.py" for k in range(len(sc["plans"]))]
    root_ops = [["static", *names]]
    for n in names:
        root_ops.append(["plan", "./" + n, {}])
    out["plan.py"] = (render_script(root_ops), 0o755)
    for n, ops in zip(names, sc["plans"], strict=True):
        out[n] = (render_script(ops), 0o755)
    return out


class DeathInjector(M.Monitor):
    name = "death"

    def __init__(self, faults):
        super().__init__()
        self.faults = faults

    def on_cmd_start(self, world, proc):
        for f in self.faults:
            if f["kind"] == "client_death" and proc.label == f"./sp{f['plan']}.py" and not f.get("done"):
                f["done"] = True
                proc.die_after_sends = f["after_sends"]
                proc.die_goodbye = bool(f.get("goodbye"))


def run_decl(sc, own_classes, extra=None, second_build=True) -> Result:
    res = Result()
    import hashlib
    import json

    res.signature = hashlib.sha256(json.dumps([sc["plans"], sc["files"], sc["faults"]], sort_keys=True).encode()).hexdigest()[:16]
    base = history.scratch_base()
    root = os.path.join(base, f"{sc['seed']}-D")
    sched = sc["schedule"]
    own = [cls() for cls in own_classes]
    others = [cls() for cls in (M.InvariantMonitor, M.ErrorClassMonitor, M.OwnershipMonitor, M.AtomicityMonitor) if cls not in own_classes]
    mons = own + others
    inj = DeathInjector(copy.deepcopy(sc["faults"]))
    mons.append(inj)
    uni = Universe(root, Chooser(sched["seed"], mode=sched.get("mode", "seeded"), profile=sched.get("profile")), monitors=mons)
    w = uni.world
    files = render_decl(sc)
    ops = []
    for path in sorted(files):
        text, mode = files[path]
        ops.append(("write", path, text, mode))
    uni.apply_user_ops(ops)
    sqlf = [f for f in sc["faults"] if f["kind"] == "sql"]
    if sqlf:
        target = sqlf[0]["nth_rpc_statement"]
        state = {"n": 0, "fired": False}

        def stmt_fault(stmt_no, query):
            import asyncio

            t = asyncio.current_task()
            if t is None or not t.get_name().startswith("RPC:"):
                return None
            state["n"] += 1
            if state["n"] == target and not state["fired"]:
                state["fired"] = True
                w.count("fault.sql_statement_error")
                w.log_event("fault", "sql", query[:60])
                return sqlite3.OperationalError("database or disk is full (injected fault)")
            return None

        w.stmt_fault = stmt_fault
    results = []
    r = uni.build({"njob": sc["njob"]}, scratch=True)
    results.append(r)
    if r.harness_error is not None:
        raise r.harness_error
    w.stmt_fault = None
    if second_build and r.ok:
        # a restart replays every declaration against the memories of the first build
        r2 = uni.build({"njob": 1})
        results.append(r2)
        if r2.harness_error is not None:
            raise r2.harness_error
    ncmd = history.collect(res, w, results)
    res.fingerprint = w.fingerprint()
    for rr in results:
        if rr.exception is not None:
            res.stats["serve_exceptions"] += 1
    for m in mons:
        for k, v in m.counters.items():
            res.stats[f"{m.name}.{k}"] += v
        if m in own:
            for oracle, cls, msg, key in m.violations:
                res.violate(oracle, cls, msg, key)
        elif m.violations:
            res.stats[f"other_property_hits.{m.name}"] += len(m.violations)
    nrej = sum(1 for ev in w.log if ev[2] == "rpc_out" and ev[5] == "fail")
    res.stats["rejected_requests"] += nrej
    if extra is not None:
        extra(sc, uni, results, res, mons)
    res.nontrivial = nrej > 0
    res.sample = {
        "seed": sc["seed"], "hostile": sc["hostile"], "plans": sc["plans"][:2], "faults": sc["faults"],
        "returncodes": [x.rc_value for x in results], "rejected": nrej,
    }
    return res


def shrink_decl(sc):
    if sc["faults"]:
        for k in range(len(sc["faults"])):
            out = copy.deepcopy(sc)
            del out["faults"][k]
            yield out
    if sc["schedule"].get("mode") != "calm":
        out = copy.deepcopy(sc)
        out["schedule"] = {"mode": "calm", "seed": 0}
        if sc["schedule"].get("profile"):
            out["schedule"]["profile"] = sc["schedule"]["profile"]
        yield out
    for k in range(len(sc["plans"]) - 1, -1, -1):
        if len(sc["plans"]) > 1:
            out = copy.deepcopy(sc)
            del out["plans"][k]
            out["faults"] = [f for f in out["faults"] if f.get("plan", 0) < len(out["plans"])]
            yield out
    for k, ops in enumerate(sc["plans"]):
        for j in range(len(ops) - 1, -1, -1):
            out = copy.deepcopy(sc)
            del out["plans"][k][j]
            yield out
    used = set()
    for ops in sc["plans"]:
        used.update(_strings(ops))
    for f in list(sc["files"]):
        if f not in used and len(sc["files"]) > 1:
            out = copy.deepcopy(sc)
            out["files"].remove(f)
            yield out


def _strings(obj):
    if isinstance(obj, str):
        yield obj
    elif isinstance(obj, list):
        for x in obj:
            yield from _strings(x)
    elif isinstance(obj, dict):
        for v in obj.values():
            yield from _strings(v)
