"""C06: cleaning never destroys what StepUp does not own."""

import argparse
import contextlib
import copy
import io
import os
import random

from sim import gen, history
from sim import monitors as M
from sim import shrink as shrinkmod
from sim.chooser import Chooser, derive_seed
from sim.runner import Result
from sim.universe import Universe

PROPERTY = "C06"
ORACLE = "R-clean: every remove/rmdir by the director or by `stepup clean` is judged at the moment it happens against the graph, the ownership history of the universe and the last recorded digest"
DESIGN_REF = "DESIGN.md section 7 (C06)"
RULE = (
    "history scenarios whose plan edits orphan outputs, plus user vandalism before builds "
    "(overwrite, same-size replacement by rename that keeps mode and mtime, delete, replace-by-directory of orphaned and active outputs, user files in output "
    "directories, adoption of a former output as a source), all combinations of clean/no-clean, "
    "keep-going and targets, and invocations of the real clean() with random paths and flags "
    "between builds. Distinct = distinct scenario rendering + vandalism + clean calls; "
    "non-trivial = at least one removal by the director or by clean was judged."
)
ASSUMPTIONS = [
    "'recorded' means stored by some commit of this universe; a modification that StepUp hashed itself is recorded content",
]


def gen_scenario(seed, tier="quick", opts=None):
    sc = history.gen_history(seed, never=("bad",), masks=frozenset(["move_step"]), max_size=8 if tier == "quick" else 12)
    rng = random.Random(derive_seed(seed, "c06"))
    sc["vandal"] = {}
    sc["cleans"] = {}
    prev_outs = set()
    for k, ph in enumerate(sc["phases"]):
        outs, vols, prod = gen.project_outputs(ph["project"])
        cur = outs | vols
        orphans = sorted(prev_outs - cur)
        ops = []
        for o in orphans:
            r = rng.random()
            if r < 0.2:
                ops.append(["overwrite", o])
            elif r < 0.3:
                ops.append(["delete", o])
            elif r < 0.4:
                ops.append(["dir", o])
            elif r < 0.5:
                ops.append(["userfile", os.path.join(os.path.dirname(o), f"user_{k}.txt")])
        if cur and rng.random() < 0.3:
            ops.append(["overwrite", rng.choice(sorted(cur))])
        if ops:
            sc["vandal"][str(k)] = ops
        # targets / no-clean / keep-going variety on non-final phases
        if k < len(sc["phases"]) - 1 and cur and rng.random() < 0.25:
            t = rng.choice(sorted(cur))
            if rng.random() < 0.5 and os.path.dirname(t):
                ph["cfg"]["target_dirs"] = [os.path.dirname(t) + "/"]
            else:
                ph["cfg"]["targets"] = [t]
        if rng.random() < 0.4:
            cand = ["."] + sorted({os.path.dirname(p) for p in (cur | prev_outs) if os.path.dirname(p)})
            cand += orphans[:2] + sorted(ph["project"]["sources"])[:1]
            paths = rng.sample(cand, min(len(cand), rng.randint(1, 2)))
            sc["cleans"][str(k)] = {
                "paths": paths, "commit": rng.random() < 0.8, "all": rng.random() < 0.4,
                "unsafe": rng.random() < 0.2,
            }
        prev_outs = cur | (prev_outs - set(o for op, o in ops if op == "delete"))
    sc["check"] = PROPERTY
    return sc


class CleanJudge:
    def __init__(self, uni, recorder, res):
        self.uni = uni
        self.recorder = recorder
        self.res = res
        self.ctx = None  # dict describing the current phase
        self.njudged = 0

    def __call__(self, actor, op, relpath, digest):
        if actor not in ("director", "clean") or op not in ("remove", "rmdir"):
            return
        if str(relpath).startswith(".stepup") or str(relpath).startswith("/"):
            return
        self.njudged += 1
        w = self.uni.world
        res = self.res
        ctx = self.ctx or {}
        snap = ctx.get("snap") if actor == "clean" else w.prev_snap
        if op == "rmdir":
            res.stats["probe.rmdir_" + actor] += 1
            return
        res.stats["probe.remove_" + actor] += 1
        rec = self.recorder
        # (1) static in the graph?
        if snap is not None:
            for i, (kind, label, creator, det) in snap.nodes.items():
                if kind == "file" and label == relpath and i in snap.files:
                    st = snap.files[i][0]
                    if not det and M.ROLE[st] == "STATIC":
                        res.violate("R-clean/static", "static-removed",
                                    f"{actor} removed {relpath}, which is a static file ({M.FNAME[st]})", "static-removed")
        if relpath in self.uni.user_files:
            res.violate("R-clean/user", "user-file-removed",
                        f"{actor} removed {relpath}, which is a source file of the project", "user-file-removed")
        # (2) ever declared as an output?
        if relpath not in rec.ever_declared:
            res.violate("R-clean/never-output", "never-declared",
                        f"{actor} removed {relpath}, which no step of this workflow ever declared as output",
                        "never-declared-removed")
        # (3) modified after it was last recorded?
        r = rec.recorded.get(relpath)
        unsafe = bool(ctx.get("unsafe")) and actor == "clean"
        if r is not None and r["role"] == "out" and not unsafe:
            if digest != r["digest"]:
                res.violate("R-clean/modified", "modified-removed",
                            f"{actor} removed {relpath} with content {digest}, last recorded content {r['digest']}",
                            "modified-removed")
        elif r is None and relpath in rec.ever_declared:
            # declared but never recorded with a hash: nothing entitles StepUp to delete it
            res.violate("R-clean/unrecorded", "unrecorded-removed",
                        f"{actor} removed {relpath}, for which no content was ever recorded", "unrecorded-removed")
        # (4) automatic cleaning only after complete, unrestricted builds with cleaning enabled
        if actor == "director":
            cfg = ctx.get("cfg", {})
            from stepup.core.enums import ReturnCode

            rc = w.handler.builder.returncode if w.handler is not None else None
            if not cfg.get("do_clean", True):
                res.violate("R-clean/guard", "removed-with-no-clean", f"director removed {relpath} with --no-clean", "guard-no-clean")
            if cfg.get("targets") or cfg.get("target_dirs"):
                res.violate("R-clean/guard", "removed-with-targets", f"director removed {relpath} in a build restricted to targets", "guard-targets")
            if rc is not None and (rc & ~ReturnCode.WARNING):
                res.violate("R-clean/guard", "removed-after-incomplete", f"director removed {relpath} after an incomplete build ({rc})", "guard-incomplete")


def run_clean_tool(uni, spec, judge):
    from stepup.core.clean import clean
    from stepup.core.constants import GRAPH_DB
    from stepup.core.path import translate
    from stepup.core.sqlite3 import connect
    from path import Path

    from sim import seams

    seams.install()
    w = uni.world
    if not os.path.exists(os.path.join(uni.root, ".stepup", "graph.db")):
        return
    cwd = os.getcwd()
    os.chdir(uni.root)
    from sim.world import World

    prev_world = World.current
    World.current = w
    w.fs_actor_override = "clean"
    judge.ctx = {"snap": uni.snapshot(), "unsafe": spec["unsafe"], "cfg": {}}
    try:
        con = connect(GRAPH_DB, read_only=True)
        try:
            args = argparse.Namespace(commit=spec["commit"], all=spec["all"], safe=not spec["unsafe"])
            tr_paths = {translate(Path(p).normpath()) for p in spec["paths"]}
            from stepup.core.exceptions import HashError

            with contextlib.redirect_stdout(io.StringIO()):
                try:
                    clean(con, tr_paths, args)
                except (HashError, IsADirectoryError):
                    # Observation (not a C06 violation, nothing is destroyed): `stepup clean`
                    # ends with a traceback when a recorded output was replaced by a directory;
                    # finalize.remove_deletable_files handles the same situation with a warning.
                    w.count("probe.clean_tool_crashes_on_directory")
        finally:
            con.close()
    finally:
        w.fs_actor_override = None
        World.current = prev_world
        os.chdir(cwd)


def run_scenario(sc) -> Result:
    res = Result()
    res.signature = history.scenario_signature(sc) + str(sorted(sc["vandal"].items()))[:300] + str(sorted(sc["cleans"].items()))[:200]
    recorder = M.OutputRecorder()
    base = history.scratch_base()
    root = os.path.join(base, f"{sc['seed']}-A")
    sched = sc["schedule"]
    uni = Universe(root, Chooser(sched["seed"], mode=sched.get("mode", "seeded"), profile=sched.get("profile")), monitors=[recorder])
    w = uni.world
    judge = CleanJudge(uni, recorder, res)
    w.fs_listeners.append(judge)
    results = []
    nv = 0
    for k, ph in enumerate(sc["phases"]):
        uni.sync_tree(ph["project"])
        vops = []
        for op, path in sc["vandal"].get(str(k), []):
            ap = os.path.join(root, path)
            nv += 1
            if op == "overwrite":
                if os.path.isfile(ap) and not os.path.islink(ap) and derive_seed(sc["seed"], "preserve", path, k) % 3 == 0:
                    vops.append(("raw_replace_same_size", path))
                elif os.path.isfile(ap):
                    vops.append(("raw_write", path, f"vandal:{path}:{k}:{nv}\n"))
            elif op == "delete":
                vops.append(("raw_remove", path))
            elif op == "dir":
                if os.path.isfile(ap):
                    vops.append(("raw_remove", path))
                    vops.append(("mkdir", path))
                    vops.append(("raw_write", os.path.join(path, "inside.txt"), f"user:{k}\n"))
            elif op == "userfile":
                if os.path.isdir(os.path.dirname(ap)):
                    vops.append(("raw_write", path, f"user:{path}:{k}\n"))
        if vops:
            uni.apply_user_ops(vops)
            res.stats["vandal_ops"] += len(vops)
        cfg = dict(ph["cfg"])
        from path import Path

        if "targets" in cfg:
            cfg["targets"] = [Path(t) for t in cfg["targets"]]
        if "target_dirs" in cfg:
            cfg["target_dirs"] = [Path(t) for t in cfg["target_dirs"]]
        judge.ctx = {"cfg": ph["cfg"]}
        r = uni.build(cfg, scratch=(ph["mode"] == "scratch"))
        results.append(r)
        if r.harness_error is not None:
            raise r.harness_error
        if not r.ok:
            break
        spec = sc["cleans"].get(str(k))
        if spec is not None:
            run_clean_tool(uni, spec, judge)
            res.stats["clean_calls"] += 1
    ncmd = history.collect(res, w, results)
    res.fingerprint = w.fingerprint()
    res.nontrivial = judge.njudged > 0
    res.stats["removals_judged"] += judge.njudged
    res.sample = {
        "seed": sc["seed"], "features": sc["features"],
        "edits": [p["edits"] for p in sc["phases"]], "cfgs": [p["cfg"] for p in sc["phases"]],
        "vandal": sc["vandal"], "cleans": sc["cleans"],
        "returncodes": [r.rc_value for r in results], "removals_judged": judge.njudged,
    }
    return res


def shrink(sc):
    for k in list(sc["cleans"]):
        out = copy.deepcopy(sc)
        del out["cleans"][k]
        yield out
    for k in list(sc["vandal"]):
        out = copy.deepcopy(sc)
        del out["vandal"][k]
        yield out
    for cand in shrinkmod.shrink_history(sc):
        n = len(cand["phases"])
        cand["vandal"] = {k: v for k, v in sc["vandal"].items() if int(k) < n}
        cand["cleans"] = {k: v for k, v in sc["cleans"].items() if int(k) < n}
        yield cand
