"""C01: an incremental build is equivalent to a build from scratch."""

import re

from sim import history
from sim import shrink as shrinkmod
from sim.monitors import StaleChildMonitor
from sim.runner import Result, load_known

PROPERTY = "C01"
ORACLE = "T-scratch: outputs, canonical graph projection and return code equal to a calm from-scratch build of the final sources"
DESIGN_REF = "DESIGN.md section 7 (C01), 6 (T-scratch)"
RULE = (
    "scenario = generated project + 2-5 phases of 1-3 random edits (sources, plans, scripts, env, "
    "drop/re-add/redefine/move steps and plans, globs), each followed by a restart build under a "
    "seeded schedule and configuration; compared with a calm from-scratch build of the final "
    "sources. Distinct = distinct rendering of all phases; non-trivial = at least two commands "
    "ran, the final project builds (scratch rc=0) and at least one edit changed the tree."
)
ASSUMPTIONS = [
    "step programs only depend on declared/amended inputs, their script and tracked env vars",
    "final build is unrestricted and runs with cleaning",
    "detached nodes, stored digests and amended info of non-succeeded steps are not compared",
]


def _masks(seed):
    """Trigger masks of known findings: a small share of the runs ignores them."""
    masks = set()
    known = [k for k in load_known() if k.get("property") == PROPERTY and k.get("status") == "known"]
    for k in known:
        m = k.get("mask")
        if m and seed % 20 != 0:
            masks.add(m)
    return frozenset(masks)


def gen_scenario(seed, tier="quick", opts=None):
    opts = opts or {}
    # "bad" (undefined resources, undeclared inputs, failing steps) makes the final project
    # unbuildable on purpose; whether such a project "is built" is not what C01 states
    never = tuple(x for x in opts.get("never", "").split(",") if x) + ("bad",)
    always = tuple(x for x in opts.get("always", "").split(",") if x)
    max_size = 8 if tier == "quick" else 12
    sc = history.gen_history(seed, always=always, never=never, masks=_masks(seed), max_size=max_size)
    sc["check"] = PROPERTY
    return sc


def run_scenario(sc) -> Result:
    res = Result()
    res.signature = history.scenario_signature(sc)
    run = history.run_history(sc, monitors=[StaleChildMonitor()], track_detached=True)
    w = run.uni.world
    ncmd = history.collect(res, w, run.results)
    fp = [w.fingerprint()]
    bad = [r for r in run.results if not r.ok]
    if bad:
        r = bad[0]
        if r.harness_error is not None:
            raise r.harness_error
        if r.hang is not None:
            res.violate("T-scratch/hang", "hang", f"build hangs: {r.hang}", "hang")
        else:
            res.violate(
                "T-scratch/exception",
                "exception",
                f"serve() raised {type(r.exception).__name__}: {r.exception}",
                f"exception:{type(r.exception).__name__}",
            )
        res.fingerprint = "|".join(fp)
        return res
    uni_s, res_s = history.scratch_twin(sc)
    history.collect(res, uni_s.world, [res_s])
    fp.append(uni_s.world.fingerprint())
    res.fingerprint = "|".join(fp)
    if not res_s.ok:
        if res_s.harness_error is not None:
            raise res_s.harness_error
        res.discard = "scratch twin did not complete"
        return res
    diffs = history.compare_with_scratch(run, uni_s, res_s)
    changed = any(len(ops) > 0 for ops in run.user_ops[1:])
    res.nontrivial = ncmd >= 2 and res_s.rc_value == 0 and changed
    res.stats["final_rc_%s" % res_s.rc_value] += 1
    if res_s.rc_value != 0:
        res.stats["final_project_not_buildable"] += 1
    if diffs:
        kinds = sorted({d.split(" ", 1)[0] for d in diffs})
        key = "+".join(kinds)
        if all(_only_inp_digest(d) for d in diffs):
            key = "inp-digest-only"
        elif all(d.startswith("tree ") and "(volatile): A=None" in d for d in diffs):
            key = "volatile-output-missing-after-skip"
        if diffs[0].startswith("returncode"):
            key = "returncode:" + diffs[0].split(":", 1)[1].strip()
            if run.last.rc_value == 0 and _succeeded_with_detached_input(run.uni.projection()):
                key = "succeeded-with-detached-input"
            elif _duplicate_step_failure(w, run.last):
                key = "moved-declaration-claimed-by-both"
            elif _defer_cap_on_detached_input(run):
                key = "defer-cap-on-detached-dynamic-input"
            elif _stale_child(w, run.last):
                key = "stale-child-of-rerunning-plan"
        if _stale_static_hash(run.uni, run):
            # known finding F26, whatever the first difference happens to be
            key = "static-file-changed-while-detached"
        res.violate("T-scratch", "differs", "\n".join(diffs[:14]), key)
    res.sample = {
        "seed": sc["seed"],
        "features": sc["features"],
        "edits": [ph["edits"] for ph in sc["phases"]],
        "cfgs": [ph["cfg"] for ph in sc["phases"]],
        "returncodes": [r.rc_value for r in run.results],
        "scratch_rc": res_s.rc_value,
    }
    return res


def _stale_static_hash(uni, run):
    """The structure of known finding F26: an attached CONFIRMED file whose recorded digest is
    not the content on disk after a completed build, and which the user edited in a phase at
    whose beginning its node was detached (neither the startup rescan nor the recycling of its
    declaring plan looks at such a file).  A stale digest of a file that was attached whenever
    it was edited is some other failure of change detection and is not classified here."""
    import os

    from sim.monitors import _hex_digest
    from sim.simfs import digest_of
    from stepup.core.enums import FileState

    snap = uni.snapshot()
    for i, (state, hj) in snap.files.items():
        if i not in snap.nodes or snap.nodes[i][3] or state != FileState.CONFIRMED.value:
            continue
        label = snap.nodes[i][1]
        if label.endswith("/"):
            continue
        on_disk = digest_of(os.path.join(uni.root, label))
        if on_disk not in (None, "DIR") and _hex_digest(hj) not in (None, "?", on_disk):
            for k, ops in enumerate(run.user_ops):
                if k < len(run.detached_before) and label in run.detached_before[k] and any(
                    op[0] in ("write", "chmod") and op[1] == label for op in ops
                ):
                    return True
    return False


def _succeeded_with_detached_input(proj):
    """The structure of known finding F2: an active SUCCEEDED step with a detached input
    (declared, or amended in the run whose result is kept)."""
    for k, d in proj["nodes"].items():
        if d.get("kind") == "step" and d.get("state") == "SUCCEEDED":
            for ref, dyn in d["sources"]:
                if ref.startswith("(file:"):
                    return True
    return False


_BOTH = re.compile(
    r"is defined by both step|cannot be (built|declared static|declared volatile) by both step"
    r"|cannot be both .* by step .* and .* by step|cannot be declared by both step"
)


def _duplicate_step_failure(world, build_result):
    """The structure of known finding F3: a plan failed because a step it (now) defines is
    still attached under the plan that defined it before."""
    for ev in world.log[build_result.log_start : build_result.log_end]:
        if ev[2] == "op" and ev[6][0] == "err" and _BOTH.search(ev[6][2]):
            return True
    return False


def _defer_cap_on_detached_input(run):
    """The structure of known finding F4: a step hit the defer cap although the only thing
    wrong is that an amended input is detached (its producer is no longer defined)."""
    w = run.uni.world
    last = run.last
    capped = False
    for ev in w.log[last.log_start : last.log_end]:
        if ev[2] == "report" and ev[3] == "FAIL" and any(
            t.startswith("Deferred more than") for t in ev[5]
        ):
            capped = True
    if not capped:
        return False
    proj = run.uni.projection()
    for d in proj["nodes"].values():
        if d.get("kind") == "step" and d.get("state") == "FAILED":
            if any(ref.startswith("(file:") and dyn for ref, dyn in d["sources"]):
                return True
    return False


def _only_inp_digest(diff_line):
    """The structure of known finding F12: a SUCCEEDED step with the same recorded output
    digest but another input digest than in the scratch universe."""
    m = re.match(r"graph step:.*\.digests: A=\('([^']*)', '([^']*)'\) B=\('([^']*)', '([^']*)'\)$", diff_line)
    return bool(m) and m.group(2) == m.group(4) and m.group(1) != m.group(3)


def _stale_child(world, build_result):
    """The structure of known finding F5: a command was started for a step that its
    re-running creator was about to drop (between the creator's dispatch and its reset)."""
    return any(
        ev[2] == "stale_child" for ev in world.log[build_result.log_start : build_result.log_end]
    )


def shrink(sc):
    yield from shrinkmod.shrink_history(sc)
