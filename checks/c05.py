"""C05: a build killed at any point is completed correctly after restart."""

import copy
import os
import random
import shutil

from sim import dbview, history
from sim import monitors as M
from sim import shrink as shrinkmod
from sim.chooser import Chooser, derive_seed
from sim.runner import Result
from sim.universe import Universe, tree_snapshot

PROPERTY = "C05"
ORACLE = "T-crash: every crash copy (project directory incl. graph.db and its WAL at a commit / file-system action / loop tick) is reopened by a fresh director, strictly (STEPUP_DEBUG) and normally, and must end with the return code, outputs, graph projection and set of files of the uninterrupted run; interrupted steps must run again"
DESIGN_REF = "DESIGN.md section 7 (C05), 3.6"
RULE = (
    "history scenarios (1-3 phases of edits) whose last build is executed twice: once to count "
    "commits, file-system actions and ticks, once more with 3-6 crash points sampled over these "
    "three classes (biased to the last third of the build, where completion, revert and cleanup "
    "commits and the file removals live); each crash copy is restarted. Distinct = distinct "
    "(scenario, crash point); non-trivial = the crash copy differs from the final state (the "
    "restarted build had something left to do or to repair)."
)
ASSUMPTIONS = [
    "a crash is a process kill: everything the kernel has is durable (no torn or lost writes inside SQLite's own I/O)",
    "steps are killed together with the director",
]


def _plan_amends(proj, seed):
    """A plan that, after declaring its steps, amends an input that a step of ANOTHER plan
    builds: it is deferred, and dispatched again once that file is there, while the steps it
    declared in its first run may still be running (they are detached at that dispatch and
    recycled when the second run declares them again)."""
    from sim import gen

    prng = random.Random(derive_seed(seed, "plan-amend"))
    plans = {p["name"]: p for p in proj["plans"]}
    sources = set(proj["sources"])
    cands = []
    for st in proj["steps"]:
        if st.get("optional") or st["plan"] not in plans:
            continue
        if any(q not in sources for v, a in st["acts"] for q in gen.read_paths(v, a)):
            continue
        for v, a in st["acts"]:
            if v == "write":
                cands.append((st["plan"], a))
    owners = sorted({st["plan"] for st in proj["steps"] if st["plan"] in plans})

    def below(a, b):
        """Is plan a the plan b or one of its descendants?"""
        while a is not None:
            if a == b:
                return True
            a = plans[a]["parent"] if a in plans else None
        return False

    # The producer must not be declared by the amending plan or below it: a plan that waits for
    # what only its own subtree can build is a different matter (see DESIGN 15.9, open lead).
    parents = {p["parent"] for p in proj["plans"]}

    def declared_outside(path, b):
        """Is the source declared static (directly or by a tree) by a plan that is not b?"""
        for t, owner in proj["trees"].items():
            if path.startswith(t):
                return owner != b
        return proj["statics"].get(path) not in (None, b)

    producers = {o: st for st in proj["steps"] for v, o in st["acts"] if v == "write"}
    pairs = [
        (b, o)
        for b in owners
        if b not in parents  # a leaf plan: nothing but its own steps hangs below it
        for (a, o) in sorted(cands)
        if not below(a, b)
        and all(declared_outside(q, b) for v, x in producers[o]["acts"] for q in gen.read_paths(v, x))
    ]
    if not pairs:
        return
    b, o = prng.choice(pairs)
    plan = plans[b]
    plan["extra_ops"] = [*plan.get("extra_ops", []), ["amend", {"inp": [gen._rel(o, plan["wd"])]}]]


def gen_scenario(seed, tier="quick", opts=None):
    sc = history.gen_history(seed, never=("bad",), masks=frozenset(["drop_producer", "move_step"]),
                             nphases=random.Random(seed).randint(1, 3), max_size=7 if tier == "quick" else 10)
    if derive_seed(seed, "plan-amend?") % 3 == 0:
        for ph in sc["phases"]:
            _plan_amends(ph["project"], seed)
        sc["plan_amend"] = True
    rng = random.Random(derive_seed(seed, "c05"))
    npoints = rng.randint(3, 6)
    sc["crash"] = [
        {"kind": rng.choice(["commit", "commit", "fsop", "tick"]), "frac": rng.choice([rng.random(), 0.66 + rng.random() / 3])}
        for _ in range(npoints)
    ]
    sc["restart_cfg"] = {"njob": rng.choice([1, 2, 4])}
    sc["check"] = PROPERTY
    return sc


def _run(sc, name, base, crash_points=None, copies=None):
    root = os.path.join(base, f"{sc['seed']}-{name}")
    sched = sc["schedule"]
    uni = Universe(root, Chooser(sched["seed"], mode=sched.get("mode", "seeded"), profile=sched.get("profile")))
    w = uni.world
    results = []
    counts = {}
    n = len(sc["phases"])
    for k, ph in enumerate(sc["phases"]):
        uni.sync_tree(ph["project"])
        last = k == n - 1
        if last:
            c0, f0 = w.commit_no, w.fs.nops
            if crash_points is not None:
                todo = {(kind, num) for kind, num in crash_points}

                def hook(kind, num, info, c0=c0, f0=f0):
                    rel = num - (c0 if kind == "commit" else f0 if kind == "fsop" else 0)
                    if (kind, rel) in todo:
                        todo.discard((kind, rel))
                        dest = os.path.join(base, f"{sc['seed']}-crash-{kind}-{rel}")
                        if not os.path.exists(dest):
                            shutil.copytree(root, dest, symlinks=True)
                            running = sorted(p.label for p in w.procs if p.state != "done")
                            copies.append({"kind": kind, "n": rel, "root": dest, "running": running,
                                           "task": (info or {}).get("task") if isinstance(info, dict) else None})

                w.crash_hook = hook
                w.tick_crash = True
        r = uni.build(dict(ph["cfg"]), scratch=(ph["mode"] == "scratch"))
        w.crash_hook = None
        w.tick_crash = None
        results.append(r)
        if r.harness_error is not None:
            raise r.harness_error
        if not r.ok:
            break
        if last:
            counts = {"commit": w.commit_no - c0, "fsop": w.fs.nops - f0, "tick": r.ticks}
    return uni, results, counts


def run_scenario(sc) -> Result:
    res = Result()
    res.signature = history.scenario_signature(sc)
    base = history.scratch_base()
    # pass 1: count
    uni0, results0, counts = _run(sc, "count", base)
    if not results0[-1].ok or len(results0) < len(sc["phases"]):
        history.collect(res, uni0.world, results0)
        res.discard = "reference build did not complete"
        res.fingerprint = uni0.world.fingerprint()
        return res
    fp0 = uni0.world.fingerprint()
    uni0.destroy()
    points = []
    for c in sc["crash"]:
        total = counts.get(c["kind"], 0)
        if total <= 0:
            continue
        num = max(1, min(total, int(round(c["frac"] * total))))
        points.append((c["kind"], num))
    points = sorted(set(points))
    # pass 2: same run with crash copies
    copies = []
    uni, results, _ = _run(sc, "A", base, crash_points=points, copies=copies)
    w = uni.world
    ncmd = history.collect(res, w, results)
    fps = [w.fingerprint()]
    if w.fingerprint() != fp0:
        raise RuntimeError("replay of the same scenario diverged (determinism)")
    ref = results[-1]
    ref_rc = ref.rc_value
    ref_tree = uni.tree()
    ref_proj = history.strip_for_twin(uni.projection())
    final_cfg = sc["phases"][-1]["cfg"]
    nontrivial = 0
    for cp in copies:
        label = f"{cp['kind']}#{cp['n']}"
        res.stats["crash_points"] += 1
        res.stats["fault.crash_at_" + cp["kind"]] += 1
        crash_tree = tree_snapshot(cp["root"])
        # which steps were RUNNING / CHECKING in the copied database?
        try:
            con = dbview.open_ro(os.path.join(cp["root"], ".stepup", "graph.db"))
            try:
                snap_c = dbview.take_snapshot(con)
            finally:
                con.close()
        except Exception as exc:  # noqa: BLE001
            snap_c = None
        interrupted = set(cp["running"])
        if snap_c is not None:
            for i, row in snap_c.steps.items():
                if row[M.COL["state"]] == M.RUNNING and not snap_c.nodes[i][3]:
                    interrupted.add(snap_c.nodes[i][1])
                if row[M.COL["state"]] == M.CHECKING:
                    res.stats["probe.checking_at_crash"] += 1
                if row[M.COL["state"]] == M.RUNNING:
                    res.stats["probe.running_at_crash"] += 1
                    if snap_c.nodes[i][3]:
                        res.stats["probe.detached_running_at_crash"] += 1
            for i, (st, hj) in snap_c.files.items():
                if st == M.F["UNCONFIRMED"]:
                    res.stats["probe.unconfirmed_at_crash"] += 1
        # two restarts of the same copy: strict (debug) and normal
        for mode in ("strict", "normal"):
            root2 = cp["root"] + "-" + mode
            shutil.copytree(cp["root"], root2, symlinks=True)
            env = dict(uni.world.env)
            if mode == "strict":
                env["STEPUP_DEBUG"] = "1"
            u2 = Universe(root2, Chooser(derive_seed(sc["seed"], label, mode), mode="seeded"), env=env,
                          monitors=[M.StaleChildMonitor()])
            u2.world.clock = w.clock + 100.0
            cfg = dict(final_cfg)
            cfg.update(sc["restart_cfg"])
            r2 = u2.build(cfg)
            if r2.harness_error is not None:
                raise r2.harness_error
            history.collect(res, u2.world, [r2])
            fps.append(u2.world.fingerprint())
            where = f"crash at {label} ({cp.get('task')}), restart {mode}"
            if r2.exception is not None:
                res.violate("T-crash/open", "restart-raised",
                            f"{where}: serve() raised {type(r2.exception).__name__}: {r2.exception}",
                            f"restart-raised:{type(r2.exception).__name__}")
                continue
            if r2.hang is not None:
                res.violate("T-crash/hang", "restart-hangs", f"{where}: {r2.hang}", "restart-hangs")
                continue
            errs = [m for (n_, lvl, m) in r2.error_records if n_.startswith("stepup")]
            if errs:
                res.violate("T-crash/errors", "restart-logged-error", f"{where}: {errs[0][:400]}", "restart-logged-error")
            stale = any(ev[2] == "stale_child" for ev in u2.world.log)
            sfx = ":stale-child-after-restart" if stale else ""
            if r2.rc_value != ref_rc:
                res.violate("T-crash/rc", "rc-differs", f"{where}: return code {r2.returncode}, uninterrupted {ref.returncode}", "rc-differs" + sfx)
                continue
            if mode == "strict":
                continue  # the strict restart only has to open and complete
            if ref_rc != 0:
                # an incomplete reference build: which steps ran before it stopped may
                # legitimately depend on the schedule, only the verdict is comparable
                res.stats["reference_incomplete"] += 1
                u2.destroy()
                continue
            t2 = u2.tree()
            tdiff = [p for p in sorted(set(t2) | set(ref_tree)) if t2.get(p) != ref_tree.get(p)]
            if tdiff:
                extra = [p for p in tdiff if p not in ref_tree]
                key = "orphan-after-crash" if extra and len(extra) == len(tdiff) else "tree-differs"
                if key == "orphan-after-crash" and snap_c is not None:
                    # known finding F16: the database half of the cleanup (delete_detached /
                    # revert_optional_steps) was committed, the queue of files to remove
                    # (Workflow.to_be_deleted) only lived in the memory of the killed director
                    by_label = {n[1]: i for i, n in snap_c.nodes.items() if n[0] == "file"}
                    memory_only = True
                    for p_ in extra:
                        i = by_label.get(p_)
                        if i is not None and snap_c.files.get(i, (None,))[0] not in (M.F["PLANNED"],):
                            memory_only = False
                        if p_ not in crash_tree:
                            memory_only = False
                    if memory_only:
                        key = "orphan-after-crash:removal-queue-lost"
                if key == "tree-differs":
                    key += sfx
                res.violate("T-crash/tree", key,
                            f"{where}: files differ from the uninterrupted run: "
                            + "; ".join(f"{p}: {t2.get(p)} vs {ref_tree.get(p)}" for p in tdiff[:5]), key)
            p2 = history.strip_for_twin(u2.projection())
            d = dbview.diff_projections(p2, ref_proj)
            if d:
                from checks.c01 import _only_inp_digest

                key = "graph-differs"
                if all(_only_inp_digest("graph " + x) for x in d):
                    key = "inp-digest-only"  # known finding F12
                if key == "graph-differs":
                    key += sfx
                res.violate("T-crash/graph", "graph-differs", f"{where}:\n" + "\n".join(d[:8]), key)
            # interrupted steps must run again, never be skipped
            started = [ev[5] for ev in u2.world.log if ev[2] == "cmd_start"]
            skipped = [ev[4] for ev in u2.world.log if ev[2] == "report" and ev[3] == "SKIP"]
            for lab in sorted(interrupted):
                if lab in skipped and lab not in started:
                    res.violate("T-crash/interrupted", "interrupted-skipped",
                                f"{where}: {lab} was executing at the crash and is skipped after the restart",
                                "interrupted-skipped")
            if crash_tree != ref_tree or started:
                nontrivial += 1
            u2.destroy()
        shutil.rmtree(cp["root"], ignore_errors=True)
    res.fingerprint = "|".join(fps)
    res.nontrivial = nontrivial > 0 and ncmd >= 1
    res.signature += ":" + ",".join(f"{k}{n}" for k, n in points)
    res.sample = {
        "seed": sc["seed"], "features": sc["features"], "edits": [p["edits"] for p in sc["phases"]],
        "crash_points": points, "counts": counts, "reference_rc": ref_rc,
        "copies": [{k: v for k, v in c.items() if k != "root"} for c in copies],
    }
    return res


def shrink(sc):
    for k in range(len(sc["crash"]) - 1, -1, -1):
        if len(sc["crash"]) > 1:
            out = copy.deepcopy(sc)
            del out["crash"][k]
            yield out
    for cand in shrinkmod.shrink_history(sc):
        yield cand
