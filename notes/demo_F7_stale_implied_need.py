import os, sys, shutil, json
sys.path.insert(0, '/verif')
from sim.universe import Universe, scratch_base
from sim.chooser import Chooser
from sim.progs import render_script
from sim import dbview
base=scratch_base()
u=Universe(base+'/f6', Chooser(0,'calm'))
def files(c_ops):
    return [("write","plan.py",render_script([["static","src.txt","c.py"],["step","P r=src.txt w=p.txt",{"inp":["src.txt"],"out":["p.txt"],"need":"OPTIONAL"}],["run","./c.py",{"out":["c.txt"]}]]),0o755),
            ("write","src.txt","hello",0o644),
            ("write","c.py",render_script(c_ops),0o755)]
u.apply_user_ops(files([["aread","p.txt"],["write","c.txt"]]))
r=u.build({"njob":1}); print('build1', r.returncode, sorted(u.tree()))
u.apply_user_ops([("write","c.py",render_script([["write","c.txt"]]),0o755)])
r=u.build({"njob":1}); print('build2', r.returncode, sorted(u.tree()))
p=u.projection()
for k,d in p['nodes'].items():
    if d['kind']=='step': print(k, d['state'], d['need'], d['implied_need'])
r=u.build({"njob":1}); print('build3', r.returncode, sorted(u.tree()))
p=u.projection()
for k,d in p['nodes'].items():
    if d['kind']=='step': print(k, d['state'], d['need'], d['implied_need'])
shutil.rmtree(base, ignore_errors=True)
