#!/venv/bin/python
"""Compare FakeInotify + SimFS with the kernel's inotify on the same operation scripts.

Both sides watch with the mask of `AsyncInotifyWrapper._install_watch`.  Events are reduced
to what `AsyncInotifyWrapper.change_loop` can distinguish: (path, kind) with kind in
FILE_UPDATED, FILE_DELETED, DIR_UPDATED, DIR_DELETED, IGNORED; consecutive duplicates are
collapsed (the kernel reports MODIFY/ATTRIB/CLOSE_WRITE bursts, all of which the watcher
treats as one UPDATED).  Exit 0 when every script gives the same reduced sequence.
"""

import asyncio
import os
import shutil
import sys
import tempfile

sys.path.insert(0, os.path.dirname(os.path.dirname(os.path.abspath(__file__))))

from asyncinotify import Inotify, Mask  # noqa: E402

WATCH_MASK = (
    Mask.MODIFY | Mask.CREATE | Mask.DELETE | Mask.CLOSE_WRITE | Mask.MOVE | Mask.MOVE_SELF
    | Mask.DELETE_SELF | Mask.UNMOUNT | Mask.ATTRIB | Mask.IGNORED
)

SCRIPTS = {
    "create-modify-delete": [("watch", "."), ("write", "a.txt", "1"), ("write", "a.txt", "2"), ("remove", "a.txt")],
    "chmod": [("write", "a.txt", "1"), ("watch", "."), ("chmod", "a.txt", 0o600)],
    "mkdir-populate-unwatched": [("watch", "."), ("mkdir", "d"), ("write", "d/x.txt", "1")],
    "mkdir-watch-populate": [("watch", "."), ("mkdir", "d"), ("watch", "d"), ("write", "d/x.txt", "1"), ("remove", "d/x.txt")],
    "rmdir-watched": [("mkdir", "d"), ("watch", "."), ("watch", "d"), ("rmdir", "d")],
    "rmtree-watched": [("mkdir", "d"), ("mkdir", "d/e"), ("write", "d/e/x", "1"), ("write", "d/y", "1"), ("watch", "."), ("watch", "d"), ("watch", "d/e"), ("rmtree", "d")],
    "rename-file-same-dir": [("write", "a", "1"), ("watch", "."), ("rename", "a", "b")],
    "rename-file-across": [("mkdir", "d"), ("write", "a", "1"), ("watch", "."), ("watch", "d"), ("rename", "a", "d/a")],
    "rename-file-over-existing": [("write", "a", "1"), ("write", "b", "2"), ("watch", "."), ("rename", "a", "b")],
    "rename-dir": [("mkdir", "d"), ("write", "d/x", "1"), ("watch", "."), ("watch", "d"), ("rename", "d", "e"), ("write", "e/x", "2")],
    "rename-dir-away-and-back": [("mkdir", "d"), ("write", "d/x", "1"), ("watch", "."), ("watch", "d"), ("rename", "d", "e"), ("rename", "e", "d"), ("write", "d/x", "2")],
    "rmdir-recreate": [("mkdir", "d"), ("watch", "."), ("watch", "d"), ("rmdir", "d"), ("mkdir", "d"), ("write", "d/x", "1")],
    "delete-recreate-file": [("write", "a", "1"), ("watch", "."), ("remove", "a"), ("write", "a", "1")],
    "rewatch-same-dir": [("watch", "."), ("watch", "."), ("write", "a", "1")],
    "rm-watch": [("mkdir", "d"), ("watch", "d"), ("unwatch", "d"), ("write", "d/x", "1")],
}


def reduce_events(events):
    out = []
    for path, mask in events:
        if mask & Mask.IGNORED:
            kind = "IGNORED"
        else:
            deleted = bool(mask & (Mask.DELETE | Mask.DELETE_SELF | Mask.MOVED_FROM | Mask.MOVE_SELF))
            isdir = bool(mask & Mask.ISDIR)
            kind = ("DIR_" if isdir else "FILE_") + ("DELETED" if deleted else "UPDATED")
        item = (path, kind)
        if out and out[-1] == item:
            continue
        out.append(item)
    return out


async def run_real(script):
    base = tempfile.mkdtemp(prefix="verif-cal-", dir="/dev/shm")
    cwd = os.getcwd()
    os.chdir(base)
    events = []
    watches = {}
    try:
        with Inotify() as ino:
            for op in script:
                kind = op[0]
                if kind == "watch":
                    watches[op[1]] = ino.add_watch(op[1], WATCH_MASK)
                elif kind == "unwatch":
                    ino.rm_watch(watches[op[1]])
                elif kind == "write":
                    with open(op[1], "wb") as fh:
                        fh.write(op[2].encode())
                elif kind == "remove":
                    os.remove(op[1])
                elif kind == "mkdir":
                    os.mkdir(op[1])
                elif kind == "rmdir":
                    os.rmdir(op[1])
                elif kind == "rmtree":
                    shutil.rmtree(op[1])
                elif kind == "rename":
                    os.rename(op[1], op[2])
                elif kind == "chmod":
                    os.chmod(op[1], op[2])
            while True:
                try:
                    ev = await asyncio.wait_for(ino.get(), timeout=0.2)
                except asyncio.TimeoutError:
                    break
                events.append((os.path.normpath(str(ev.path)), ev.mask))
    finally:
        os.chdir(cwd)
        shutil.rmtree(base, ignore_errors=True)
    return events


def run_sim(script):
    from sim import seams
    from sim.chooser import Chooser
    from sim.simfs import FakeInotify
    from sim.world import World

    seams.install()
    base = tempfile.mkdtemp(prefix="verif-cal-", dir="/dev/shm")
    events = []
    try:
        w = World(base, {"PATH": "/usr/bin"}, Chooser(0, mode="calm"))
        w.snapshots_enabled = False

        async def main(world):
            ino = FakeInotify()
            watches = {}
            for op in script:
                kind = op[0]
                if kind == "watch":
                    watches[op[1]] = ino.add_watch(op[1], WATCH_MASK)
                elif kind == "unwatch":
                    ino.rm_watch(watches[op[1]])
                elif kind == "write":
                    world.fs.write("user", op[1], op[2])
                elif kind == "remove":
                    world.fs.remove("user", op[1])
                elif kind == "mkdir":
                    world.fs.mkdir("user", op[1])
                elif kind == "rmdir":
                    world.fs.rmdir("user", op[1])
                elif kind == "rmtree":
                    world.fs.rmtree("user", op[1])
                elif kind == "rename":
                    world.fs.rename("user", op[1], op[2])
                elif kind == "chmod":
                    world.fs.chmod("user", op[1], op[2])
            while True:
                try:
                    ev = await asyncio.wait_for(ino.get(), timeout=5.0)
                except asyncio.TimeoutError:
                    break
                events.append((os.path.normpath(str(ev.path)), ev.mask))
            ino.close()

        r = w.run(main)
        if r.exception is not None:
            raise r.exception
        if r.harness_error is not None:
            raise r.harness_error
    finally:
        shutil.rmtree(base, ignore_errors=True)
    return events


def main():
    bad = 0
    verbose = "-v" in sys.argv
    for name, script in SCRIPTS.items():
        real = asyncio.run(run_real(script))
        sim = run_sim(script)
        rr, rs = reduce_events(real), reduce_events(sim)
        ok = rr == rs
        print(f"{'ok  ' if ok else 'DIFF'} {name}")
        if not ok or verbose:
            print("   kernel:", [(p, repr(m)) for p, m in real] if verbose else rr)
            print("   sim   :", [(p, repr(m)) for p, m in sim] if verbose else rs)
        bad += not ok
    print(f"{len(SCRIPTS) - bad}/{len(SCRIPTS)} scripts agree")
    return 1 if bad else 0


if __name__ == "__main__":
    sys.exit(main())
