#!/usr/bin/env python3
"""Copy the deliverables of the mutant-writing sub-agents from /tmp/wt-<ID> into /verif/seeded."""
import glob, json, os, shutil, subprocess, sys

for wt in sorted(glob.glob("/tmp/wt-C*") + glob.glob("/tmp/wt3-C*")):
    pid = wt.rsplit("-", 1)[1]
    for n in (1, 2, 3):
        diff = os.path.join(wt, f"mutant_{n}.diff")
        if not os.path.isfile(diff):
            continue
        name = f"{pid}-m{n}"
        dst = os.path.join("/verif/seeded", name)
        os.makedirs(dst, exist_ok=True)
        shutil.copy(diff, os.path.join(dst, "patch.diff"))
        for demo in glob.glob(os.path.join(wt, f"demo_{n}.*")):
            shutil.copy(demo, os.path.join(dst, "demonstration" + os.path.splitext(demo)[1]))
        meta = {}
        mp = os.path.join(wt, f"meta_{n}.json")
        if os.path.isfile(mp):
            try:
                meta = json.load(open(mp))
            except Exception as exc:
                meta = {"meta_error": str(exc)}
        meta.setdefault("property", pid)
        meta["origin"] = "sub-agent (given only the property text and a scratch worktree)"
        meta.setdefault("checks", [pid])
        json.dump(meta, open(os.path.join(dst, "meta.json"), "w"), indent=1)
        chk = subprocess.run(["git", "-C", "/repo", "apply", "--check", os.path.join(dst, "patch.diff")], capture_output=True, text=True)
        files = subprocess.run(["git", "-C", "/repo", "apply", "--numstat", os.path.join(dst, "patch.diff")], capture_output=True, text=True).stdout.split("\n")
        print(name, "applies" if chk.returncode == 0 else "DOES NOT APPLY: " + chk.stderr.strip()[:200], [f.split("\t")[-1] for f in files if f], "|", meta.get("title", "")[:90])
