#!/usr/bin/env python3
"""Markdown table of /verif/seeded/results.json (which check caught which seeded change)."""
import json, os
R = json.load(open("/verif/seeded/results.json"))
print("| Seeded change | Property | What was changed | Check: outcome (oracle [key], wall seconds incl. minimisation) |")
print("|---|---|---|---|")
for name in sorted(R):
    e = R[name]
    meta = {}
    mp = f"/verif/seeded/{name}/meta.json"
    if os.path.exists(mp):
        meta = json.load(open(mp))
    cells = []
    for chk, r in sorted(e.get("checks", {}).items()):
        if r["detected"]:
            cells.append(f"{chk}: caught, {r['violation']} ({r['wall_s']} s)")
        else:
            cells.append(f"{chk}: missed (exit {r['exit']}, {r['wall_s']} s)")
    title = (meta.get("title") or e.get("title") or "").replace("|", "/")
    files = ", ".join(os.path.basename(f) for f in meta.get("files", [])) if isinstance(meta.get("files"), list) else ""
    print(f"| `{name}` | {e.get('property','')} | {title[:150]}{' (' + files + ')' if files else ''} | {'; '.join(cells)} |")
