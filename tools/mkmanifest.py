#!/venv/bin/python
"""Regenerate MANIFEST.json from the check modules (keeps it valid and uniform)."""
import importlib
import json
import os
import sys

HERE = os.path.dirname(os.path.dirname(os.path.abspath(__file__)))
sys.path.insert(0, HERE)

CLAIMED = []
for name in sorted(os.listdir(os.path.join(HERE, "checks"))):
    if name.startswith("c") and name[1:3].isdigit() and name.endswith(".py"):
        CLAIMED.append(name[:-3])

NA = [
    {"property_id": "C13", "reason": "both halves are pure functions of their arguments (ingredient maps; recorded hash + file stat/content; JSON round trip): no schedule, fault, crash or history enters the statement, so a check would be input generation, not simulation"},
    {"property_id": "C17", "reason": "convert_nglob_to_regex/glob, extend/reduce/will_change are pure functions of (pattern, substitutions, tree listing, change lists): input-space exploration, not simulation (the history-dependent consequence is checked inside C14)"},
    {"property_id": "C18", "reason": "each 'under this directory' selection is a pure function of (directory string, stored labels): input generation, not simulation (hostile names reach every selection through the claimed workloads; finding F1 was found and fixed that way)"},
    {"property_id": "C20", "reason": "translate/translate_back and the affix helpers are pure path arithmetic over (path, workdir, two environment variables); no interleaving, fault or history can change their result"},
]

checks = []
for name in CLAIMED:
    mod = importlib.import_module(f"checks.{name}")
    pid = mod.PROPERTY
    checks.append({
        "property_id": pid,
        "quick_cmd": f"./check {pid} --tier quick",
        "thorough_cmd": f"./check {pid} --tier thorough",
        "evidence_file": f"/verif/evidence/{pid}.json",
        "replay_cmd_template": f"./check {pid} --replay {{path}}",
        "engine": "stepup-dst",
        "level_claimed": {
            "category": "exploration",
            "text": getattr(mod, "LEVEL_TEXT", "seeded search over scenarios x schedules x faults on the real code under a deterministic simulator; a clean batch is evidence, not proof"),
            "design_ref": getattr(mod, "DESIGN_REF", "DESIGN.md section 7"),
        },
        "level_note": getattr(mod, "LEVEL_NOTE", "trusted: the simulator stubs (step processes, sockets, hash threads, inotify, clocks) behave like the real thing within the modelled faults; SQLite itself; the oracles' reference models"),
        "technique": getattr(mod, "TECHNIQUE", "deterministic simulation with fault injection: seeded search over schedules, histories and faults; oracle " + getattr(mod, "ORACLE", "")),
    })

claimed_ids = {c["property_id"] for c in checks}
all_ids = [f"C{i:02d}" for i in range(1, 21)]
na = [x for x in NA if x["property_id"] not in claimed_ids]
for pid in all_ids:
    if pid not in claimed_ids and pid not in {x["property_id"] for x in na}:
        na.append({"property_id": pid, "reason": "check not built yet (in progress): nothing is claimed for this property at this commit"})

manifest = {
    "version": 1,
    "setup_cmd": "/venv/bin/python -c \"import stepup.core, hypothesis, jsonschema, asyncinotify\" && mkdir -p /verif/evidence /verif/replays",
    "hooks": {
        "guard": "STEPUP_CORE_VERIF",
        "enable": "no hooks in /repo: all seams are monkeypatched from /verif/sim/seams.py; the checks import stepup.core from /repo's working tree (editable install)",
        "baseline_off_cmd": "cd /repo && /venv/bin/python -m pytest -ra -q -p no:cacheprovider --timeout=900 --continue-on-collection-errors",
        "source_commits": [],
        "add_only": True,
    },
    "engines": [{
        "name": "stepup-dst",
        "path": "/verif/sim",
        "serves_properties": sorted(claimed_ids),
        "kind_free_text": "deterministic simulator: virtual-time asyncio loop, in-memory sockets, baton-passed step threads running the real stepup.core.api, tmpfs-backed file layer with fake inotify, commit-level database monitors, twin universes, crash copies",
    }],
    "checks": checks,
    "not_applicable": na,
    "notes": "known findings: /verif/known_findings.json; fix commits in /repo start with 'fix:'; determinism self-test: ./check selftest",
}
with open(os.path.join(HERE, "MANIFEST.json"), "w") as fh:
    json.dump(manifest, fh, indent=1)
import jsonschema
jsonschema.validate(manifest, json.load(open("/root/.vp/MANIFEST.schema.json")))
print("MANIFEST ok:", sorted(claimed_ids))
