#!/usr/bin/env python3
"""Apply each seeded change in /verif/seeded/<name>/patch.diff to /repo's working tree, run
the checks that should notice it, record what happened, and restore /repo.

    tools/run_seeded.py [--only NAME[,NAME]] [--budget S] [--workers N] [--seeds 1,2] [--checks C01,C09]

Results are merged into /verif/seeded/results.json.  Evidence files are redirected to a scratch
directory so that /verif/evidence keeps describing the unchanged tree.
"""

import argparse
import json
import os
import re
import shutil
import subprocess
import sys
import tempfile
import time

VERIF = os.path.dirname(os.path.dirname(os.path.abspath(__file__)))
SEEDED = os.path.join(VERIF, "seeded")
REPO = "/repo"


def sh(*cmd, **kw):
    return subprocess.run(cmd, capture_output=True, text=True, **kw)


def repo_clean():
    return sh("git", "-C", REPO, "status", "--porcelain", "--untracked-files=no").stdout.strip() == ""


def main():
    ap = argparse.ArgumentParser()
    ap.add_argument("--only", default="")
    ap.add_argument("--budget", type=float, default=120)
    ap.add_argument("--workers", type=int, default=12)
    ap.add_argument("--seeds", default="1")
    ap.add_argument("--checks", default="")
    ap.add_argument("--tier", default="quick")
    args = ap.parse_args()
    names = sorted(d for d in os.listdir(SEEDED) if os.path.isfile(os.path.join(SEEDED, d, "patch.diff")))
    if args.only:
        want = set(args.only.split(","))
        names = [n for n in names if n in want]
    res_path = os.path.join(SEEDED, "results.json")
    results = json.load(open(res_path)) if os.path.exists(res_path) else {}
    if not repo_clean():
        print("refusing to run: /repo has uncommitted changes", file=sys.stderr)
        return 2
    evdir = tempfile.mkdtemp(prefix="verif-seeded-ev-", dir="/dev/shm")
    env = dict(os.environ, VERIF_EVIDENCE_DIR=evdir)
    try:
        for name in names:
            d = os.path.join(SEEDED, name)
            meta = json.load(open(os.path.join(d, "meta.json")))
            checks = args.checks.split(",") if args.checks else meta.get("checks") or [meta["property"]]
            ap_ = sh("git", "-C", REPO, "apply", os.path.join(d, "patch.diff"))
            if ap_.returncode != 0:
                print(f"{name}: patch does not apply: {ap_.stderr.strip()[:300]}")
                results.setdefault(name, {})["apply_error"] = ap_.stderr.strip()[:300]
                sh("git", "-C", REPO, "checkout", "--", ".")
                continue
            try:
                entry = results.setdefault(name, {})
                entry.pop("apply_error", None)
                entry["property"] = meta["property"]
                entry["title"] = meta.get("title", "")
                for chk in checks:
                    best = None
                    for seed in [int(x) for x in args.seeds.split(",")]:
                        t0 = time.time()
                        p = sh(os.path.join(VERIF, "check"), chk, "--tier", args.tier, "--seed", str(seed),
                               "--budget", str(args.budget), "--workers", str(args.workers), env=env, cwd=VERIF)
                        dt = time.time() - t0
                        out = p.stdout
                        m = re.search(r"^VIOLATION property=(\S+) replay=(\S+)", out, re.M)
                        vi = re.search(r"^violation found at seed (\d+): (.*)$", out, re.M)
                        msg = ""
                        if vi:
                            lines = out.splitlines()
                            k = lines.index(vi.group(0))
                            msg = (lines[k + 1].strip() if k + 1 < len(lines) else "")[:400]
                        rec = {
                            "seed": seed, "exit": p.returncode, "wall_s": round(dt, 1),
                            "detected": bool(m) and p.returncode == 1,
                            "violation": (vi.group(2) if vi else None), "message": msg,
                            "summary": next((l for l in out.splitlines() if l.startswith(chk + ":")), ""),
                            "harness": "HARNESS" in out,
                        }
                        if best is None or (rec["detected"] and not best["detected"]):
                            best = rec
                        if rec["detected"]:
                            break
                    entry.setdefault("checks", {})[chk] = best
                    print(f"{name:28s} {chk}: {'DETECTED' if best['detected'] else 'missed  '} exit={best['exit']} "
                          f"{best['wall_s']}s {best['violation'] or ''} {best['message'][:160]}")
                    sys.stdout.flush()
            finally:
                sh("git", "-C", REPO, "checkout", "--", ".")
                with open(res_path, "w") as fh:
                    json.dump(results, fh, indent=1, sort_keys=True)
    finally:
        shutil.rmtree(evdir, ignore_errors=True)
        sh("git", "-C", REPO, "checkout", "--", ".")
    return 0


if __name__ == "__main__":
    sys.exit(main())
