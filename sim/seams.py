"""All monkeypatches that put StepUp's sources of nondeterminism behind the simulator.

Nothing in /repo is modified.  `install()` is idempotent and process-global; every patched
function falls back to the original behaviour when no simulated world is active.
"""

import asyncio
import os

from path import Path

__all__ = ("install", "RecordingReporter", "CrashNow", "InjectedSQLError")

_installed = False
_orig = {}


class CrashNow(BaseException):
    """Abort the current director lifetime at once (simulated kill)."""


class InjectedSQLError(Exception):
    pass


def _world():
    from .world import World

    return World.current


# --- reporter --------------------------------------------------------------------------------


def _make_reporter_class():
    from stepup.core.rpc import BaseAsyncRPCClient

    class RecordingReporter(BaseAsyncRPCClient):
        """Stands in for the reporter RPC client: logs, then yields for a seeded latency."""

        def __init__(self, world):
            self.world = world

        async def __call__(self, name, /, *args, **kwargs):
            w = self.world
            if name == "report":
                tag, description, pages = args
                titles = tuple(t for t, _ in pages)
                w.log_event("report", tag, str(description), titles)
                w.reports.append((tag, str(description), pages))
            elif name in ("update_running_jobs", "update_progress"):
                w.count("reporter." + name)
            else:
                w.log_event("reporter", name, repr(args))
            d = w.chooser.delay("reporter.latency", 0, 5)
            await asyncio.sleep(d)

        async def close(self):
            return None

    return RecordingReporter


class _LazyReporter:
    _cls = None

    def __call__(self, world):
        if _LazyReporter._cls is None:
            _LazyReporter._cls = _make_reporter_class()
        return _LazyReporter._cls(world)


RecordingReporter = _LazyReporter()


# --- launch_command ------------------------------------------------------------------------------


async def sim_launch_command(command, *, shell, env, cwd, mp_ctx, run):
    from .simproc import SimProc, SimWorker

    w = _world()
    proc = SimProc(w, command, shell, env, cwd, run)
    run.worker = SimWorker(proc, job_i=run.job_i)
    try:
        return await proc.run()
    finally:
        run.worker = None


# --- hashing threads --------------------------------------------------------------------------------


async def sim_run_in_thread(self):
    w = _world()
    d = w.chooser.delay("hash.delay", 0, 30)
    w.count("hash.jobs")
    # the output hashing of a skip check is the long part of the check (outputs can be big):
    # make it slow more often than the other hash jobs
    fname = getattr(getattr(self.work, "func", None), "__name__", "")
    if w.chooser.chance("hash.slow", 60 if fname == "compute_out_hashes" else 15):
        # a big file: hashing takes seconds, longer than any timeout in the director
        d += w.chooser.delay("hash.slow_ms", 2000, 20000)
        w.count("fault.slow_hash")
    try:
        await asyncio.sleep(d)
        fault = w.hash_fault_for(self)
        if fault is not None:
            raise fault
        return self.work(self._cancel_event)
    finally:
        self._cancel_event.set()


# --- clocks ---------------------------------------------------------------------------------------


class _SimTime:
    @staticmethod
    def monotonic_ns():
        """Virtual nanoseconds, strictly increasing from call to call like a real clock.

        Several events can share one virtual instant (zero-delay schedules); a real
        monotonic clock never hands out the same nanosecond twice in such a sequence,
        and `Scheduler.ran_concurrently` treats a tie as an overlap.
        """
        w = _world()
        if w is None or w.loop is None:
            return _orig["time"].monotonic_ns()
        t = int(round(w.loop.time() * 1e9))
        last = getattr(w, "_last_ns", 0)
        if t <= last:
            t = last + 1
        w._last_ns = t
        return t

    @staticmethod
    def monotonic():
        w = _world()
        if w is None or w.loop is None:
            return _orig["time"].monotonic()
        return w.loop.time()

    @staticmethod
    def perf_counter():
        w = _world()
        if w is None or w.loop is None:
            return _orig["time"].perf_counter()
        return w.loop.time()


_job_created = {}


def _sim_job_duration(self):
    w = _world()
    if w is None or w.loop is None:
        return _orig["Job.duration"](self)
    t0 = w.job_created.get(id(self))
    if t0 is None:
        return 0.0
    return w.loop.time() - t0


def _sim_derive_job(self, step):
    job = _orig["Scheduler._derive_job"](self, step)
    w = _world()
    if w is not None and w.loop is not None:
        w.job_created[id(job)] = w.loop.time()
        w.jobs_alive.append(job)  # keep ids unique for the lifetime of the build
    return job


# --- sockets ------------------------------------------------------------------------------------------


async def sim_start_unix_server(client_connected_cb, path=None, **kwargs):
    w = _world()
    if w is None or w.net is None:
        return await _orig["start_unix_server"](client_connected_cb, path, **kwargs)
    return await w.net.start_unix_server(client_connected_cb, path, **kwargs)


async def sim_open_unix_connection(path=None, **kwargs):
    w = _world()
    if w is None or w.net is None:
        return await _orig["open_unix_connection"](path, **kwargs)
    d = w.chooser.delay("net.connect", 0, 10)
    if d:
        await asyncio.sleep(d)
    return await w.net.open_unix_connection(path, **kwargs)


def _sim_get_rpc_client(path=None):
    w = _world()
    if w is None or w.running_proc is None:
        return _orig["get_rpc_client"](path)
    return w.running_proc.get_client()


# --- RPC request logging --------------------------------------------------------------------------------


async def _sim_call_and_capture_failure(handler, call):
    w = _world()
    if w is None:
        return await _orig["_call_and_capture_failure"](handler, call)
    w.rpc_seq += 1
    rid = w.rpc_seq
    task = asyncio.current_task()
    if task is not None:
        w.task_request[id(task)] = (rid, call)
        w.task_txn[id(task)] = []
    w.log_event("rpc_in", rid, call.name, _brief_args(call))
    result = await _orig["_call_and_capture_failure"](handler, call)
    from stepup.core.rpc import RemoteFailure

    txns = w.task_txn.pop(id(task), []) if task is not None else []
    if isinstance(result, RemoteFailure):
        stopping = bool(w.handler is not None and w.handler.stop_event.is_set())
        w.log_event("rpc_out", rid, call.name, "fail", result.qualname, result.message[:400], stopping)
        for m in w.monitors:
            m.on_rpc_failure(w, rid, call, result)
            m.on_rpc_done(w, call, False)
            m.on_request_done(w, call, False, result, txns)
    else:
        w.log_event("rpc_out", rid, call.name, "ok")
        for m in w.monitors:
            m.on_rpc_done(w, call, True)
            m.on_request_done(w, call, True, result, txns)
    if task is not None:
        w.task_request.pop(id(task), None)
    return result


def _brief_args(call):
    try:
        return repr(call.args)[:600]
    except Exception:  # noqa: BLE001
        return "?"


# --- DBSession ------------------------------------------------------------------------------------------


async def _sim_aexit(self, exc_type, exc, tb):
    w = _world()
    if w is None or w.db is not self:
        return await _orig["DBSession.__aexit__"](self, exc_type, exc, tb)
    snap = None
    if exc is None:
        snap = w.on_commit_pre(self)
    await _orig["DBSession.__aexit__"](self, exc_type, exc, tb)
    w.on_commit_post(self, snap, exc is not None, exc)
    return None


def _sim_run(self, query, args, *, many):
    w = _world()
    if w is not None and w.db is self and w.stmt_fault is not None:
        w.stmt_no += 1
        fault = w.stmt_fault(w.stmt_no, query)
        if fault is not None:
            raise fault
    return _orig["DBSession._run"](self, query, args, many=many)


# --- Path methods used by the director and by `stepup clean` -------------------------------------------------


def _in_project(w, p):
    ap = os.path.normpath(os.path.join(os.getcwd(), str(p)))
    return ap == w.root or ap.startswith(w.root + "/")


def _sim_remove(self):
    w = _world()
    if w is None or not _in_project(w, self):
        return _orig["Path.remove"](self)
    w.fs.remove(w.fs_actor(), self)
    return self


def _sim_remove_p(self):
    w = _world()
    if w is None or not _in_project(w, self):
        return _orig["Path.remove_p"](self)
    try:
        w.fs.remove(w.fs_actor(), self)
    except FileNotFoundError:
        pass
    return self


def _sim_rmdir(self):
    w = _world()
    if w is None or not _in_project(w, self):
        return _orig["Path.rmdir"](self)
    w.fs.rmdir(w.fs_actor(), self)
    return self


def _sim_makedirs_p(self, mode=0o777):
    w = _world()
    if w is None or not _in_project(w, self):
        return _orig["Path.makedirs_p"](self, mode)
    if str(self).startswith(".stepup"):
        return _orig["Path.makedirs_p"](self, mode)
    w.fs.makedirs(w.fs_actor(), self)
    return self


# --- end-of-build report ----------------------------------------------------------------------------------------------


async def _sim_report_unbuilt(workflow, scheduler, reporter):
    w = _world()
    if w is None or not w.monitors:
        return await _orig["report_unbuilt"](workflow, scheduler, reporter)
    from .dbview import take_snapshot

    draining = bool(scheduler.draining)
    async with workflow.db:
        snap = take_snapshot(workflow.db._held.con)
    w.pending_capture = None
    rc = await _orig["report_unbuilt"](workflow, scheduler, reporter)
    if bool(scheduler.draining) != draining:
        # a drain request arrived while the report was being written (report_unbuilt awaits
        # the database and the reporter before it reads the flag): which value it saw cannot
        # be told from outside, so this report is not judged
        w.count("probe.drain_flag_changed_during_report")
        return rc
    for m in w.monitors:
        m.on_report_unbuilt(w, snap, draining, rc, w.pending_capture)
    return rc


def _sim_analyze_pending(workflow):
    out = _orig["_analyze_pending"](workflow)
    w = _world()
    if w is not None:
        w.pending_capture = out
    return out


# --- director wiring: keep a handle on the live components ------------------------------------------------------


async def _sim_wire_director(**kwargs):
    handler = await _orig["_wire_director"](**kwargs)
    w = _world()
    if w is not None:
        w.handler = handler
        w.serve_config = kwargs.get("config")
        for m in w.monitors:
            m.on_build_start(w)
    return handler


# --- install ---------------------------------------------------------------------------------------------------


def install():
    global _installed
    if _installed:
        return
    import time as _time

    from stepup.core import api as su_api
    from stepup.core import executor as su_executor
    from stepup.core import job as su_job
    from stepup.core import rpc as su_rpc
    from stepup.core import run as su_run
    from stepup.core import scheduler as su_scheduler
    from stepup.core import sqlite3 as su_sqlite3
    from stepup.core import watcher as su_watcher

    from .simfs import FakeInotify
    from .simnet import SimSocketModule

    _orig["time"] = _time
    _orig["launch_command"] = su_executor.launch_command
    su_executor.launch_command = sim_launch_command

    _orig["run_in_thread"] = su_run.ThreadWorker.run_in_thread
    su_run.ThreadWorker.run_in_thread = sim_run_in_thread

    _orig["start_unix_server"] = asyncio.start_unix_server
    _orig["open_unix_connection"] = asyncio.open_unix_connection
    asyncio.start_unix_server = sim_start_unix_server
    asyncio.open_unix_connection = sim_open_unix_connection

    _orig["rpc.socket"] = su_rpc.socket
    su_rpc.socket = SimSocketModule(
        lambda: _world().net, lambda: (_world().running_proc if _world() else None)
    )

    _orig["Inotify"] = su_watcher.Inotify
    su_watcher.Inotify = FakeInotify

    su_scheduler.time = _SimTime
    _orig["Job.duration"] = su_job.Job.duration
    su_job.Job.duration = _sim_job_duration
    _orig["Scheduler._derive_job"] = su_scheduler.Scheduler._derive_job
    su_scheduler.Scheduler._derive_job = _sim_derive_job

    _orig["get_rpc_client"] = su_api.get_rpc_client
    su_api.get_rpc_client = _sim_get_rpc_client

    _orig["_call_and_capture_failure"] = su_rpc._call_and_capture_failure
    su_rpc._call_and_capture_failure = _sim_call_and_capture_failure

    _orig["DBSession.__aexit__"] = su_sqlite3.DBSession.__aexit__
    su_sqlite3.DBSession.__aexit__ = _sim_aexit
    _orig["DBSession._run"] = su_sqlite3.DBSession._run
    su_sqlite3.DBSession._run = _sim_run

    from stepup.core import director as su_director

    _orig["_wire_director"] = su_director._wire_director
    su_director._wire_director = _sim_wire_director

    from stepup.core import builder as su_builder
    from stepup.core import pending as su_pending

    _orig["report_unbuilt"] = su_builder.report_unbuilt
    su_builder.report_unbuilt = _sim_report_unbuilt
    _orig["_analyze_pending"] = su_pending._analyze_pending
    su_pending._analyze_pending = _sim_analyze_pending

    _orig["Path.remove"] = Path.remove
    _orig["Path.remove_p"] = Path.remove_p
    _orig["Path.rmdir"] = Path.rmdir
    _orig["Path.makedirs_p"] = Path.makedirs_p
    Path.remove = _sim_remove
    Path.remove_p = _sim_remove_p
    Path.rmdir = _sim_rmdir
    Path.makedirs_p = _sim_makedirs_p

    _installed = True
