"""Monitors evaluated at every commit of a simulated director."""

from stepup.core.enums import FileState, Need, StepState

__all__ = ("Monitor", "StaleChildMonitor")

PENDING = StepState.PENDING.value
RUNNING = StepState.RUNNING.value
CHECKING = StepState.CHECKING.value
SUCCEEDED = StepState.SUCCEEDED.value
FAILED = StepState.FAILED.value


class Monitor:
    name = "monitor"

    def __init__(self):
        self.violations = []  # (oracle, cls, message, key)
        self.counters = {}

    def count(self, key, n=1):
        self.counters[key] = self.counters.get(key, 0) + n

    def violate(self, oracle, cls, message, key=None):
        if len(self.violations) < 20:
            self.violations.append((oracle, cls, message, key or cls))

    def on_build_start(self, world):
        pass

    def on_commit(self, world, prev, snap, info):
        pass

    def on_rollback(self, world, info, exc):
        pass

    def on_rpc_failure(self, world, rid, call, failure):
        pass

    def on_rpc_done(self, world, call, ok):
        pass

    def on_request_done(self, world, call, ok, result, txns):
        """txns: [("commit"|"rollback", snapshot before, snapshot after)] of this request."""

    def on_cmd_start(self, world, proc):
        pass

    def on_cmd_end(self, world, proc, rc):
        pass

    def on_report_unbuilt(self, world, snap, draining, returncode, pending):
        pass

    def on_build_end(self, world, result):
        pass


def step_state(snap, i):
    row = snap.steps.get(i)
    return None if row is None else row[1]


def descendants_steps(snap, root):
    """Attached step descendants of `root` over creator links."""
    children = {}
    for i, (kind, label, creator, detached) in snap.nodes.items():
        if creator is not None and creator != i and not detached:
            children.setdefault(creator, []).append(i)
    out = set()
    todo = [root]
    while todo:
        c = todo.pop()
        for ch in children.get(c, ()):
            if ch not in out:
                if snap.nodes[ch][0] == "step":
                    out.add(ch)
                todo.append(ch)
    return out


class StaleChildMonitor(Monitor):
    """Detects a command started for a step that its re-running creator is about to drop.

    When a plan step is dispatched it becomes RUNNING in the dispatch commit, while
    `reset_for_rerun` (which detaches everything the plan created in its previous run) is a
    later commit.  In between, the old children count as "created by a running step".
    """

    name = "stale_child"

    def __init__(self):
        super().__init__()
        self.stale = {}
        self.hits = []

    def on_build_start(self, world):
        world.stale_labels = set()

    def on_commit(self, world, prev, snap, info):
        if prev is None:
            self.stale = {}
            return
        newly = []
        for i, row in snap.steps.items():
            st = row[1]
            prow = prev.steps.get(i)
            pst = prow[1] if prow is not None else None
            if st == RUNNING and pst != RUNNING:
                newly.append(i)
            elif st != RUNNING and i in self.stale:
                del self.stale[i]
        for c in list(self.stale):
            ids = self.stale[c]
            keep = set()
            for j in ids:
                n = snap.nodes.get(j)
                if n is not None and not n[3]:
                    keep.add(j)
            self.stale[c] = keep
        # dispatches in this commit
        for i in newly:
            for c, ids in self.stale.items():
                if i in ids:
                    label = snap.nodes[i][1]
                    self.hits.append((snap.nodes[c][1], label))
                    world.count("probe.stale_child_command")
                    world.log_event("stale_child", snap.nodes[c][1], label)
                    if not hasattr(world, "stale_labels"):
                        world.stale_labels = set()
                    world.stale_labels.add(label)
        for i in newly:
            self.stale[i] = descendants_steps(snap, i)


# =============================================================================================
# Reference definitions computed from base tables only (never from cached columns)
# =============================================================================================

OPTIONAL = Need.OPTIONAL.value
DEFAULT = Need.DEFAULT.value
TARGET = Need.TARGET.value
PLAN = Need.PLAN.value

F = {s.name: s.value for s in FileState}
FNAME = {s.value: s.name for s in FileState}
SNAME = {s.value: s.name for s in StepState}

ROLE = {}
for _n in ("UNCONFIRMED", "MISSING", "CONFIRMED"):
    ROLE[F[_n]] = "STATIC"
for _n in ("PLANNED", "BUILT", "OUTDATED"):
    ROLE[F[_n]] = "OUTPUT"
ROLE[F["VOLATILE"]] = "VOLATILE"
ROLE[F["UNDECLARED"]] = None

COL = {name: idx for idx, name in enumerate(__import__("sim.dbview", fromlist=["STEP_COLS"]).STEP_COLS)}


class Graph:
    """Indexes over a snapshot, built once per evaluation."""

    def __init__(self, snap):
        self.snap = snap
        self.reach = snap.attached_reachable()
        self.sources = {}
        self.sinks = {}
        for idep, (src, snk) in snap.deps.items():
            dyn = idep in snap.dyn
            self.sources.setdefault(snk, []).append((src, dyn))
            self.sinks.setdefault(src, []).append((snk, dyn))

    def attached(self, i):
        return i in self.reach

    def kind(self, i):
        return self.snap.nodes[i][0]

    def label(self, i):
        return self.snap.nodes[i][1]

    def creator(self, i):
        return self.snap.nodes[i][2]

    def step(self, i, col):
        return self.snap.steps[i][COL[col]]

    def file_state(self, i):
        return self.snap.files[i][0]

    def creator_chain(self, i):
        out = []
        seen = set()
        c = self.creator(i)
        while c is not None and c not in seen and c in self.snap.nodes:
            seen.add(c)
            if self.kind(c) == "root":
                break
            out.append(c)
            c = self.creator(c)
        return out

    # -- definitions ------------------------------------------------------------------------
    def input_blocks(self, src, dyn):
        """UNAVAILABLE rule from the documentation (A.2 'ready')."""
        st = self.file_state(src)
        att = self.attached(src)
        if st == F["VOLATILE"]:
            return True
        if dyn:
            return att and st in (F["PLANNED"], F["OUTDATED"])
        return (not att) or st not in (F["BUILT"], F["CONFIRMED"])

    def ready(self, s):
        return not any(
            self.input_blocks(src, dyn) for src, dyn in self.sources.get(s, ()) if src in self.snap.files
        )

    def safe(self, s, ignore_hold=False):
        for a in self.creator_chain(s):
            if self.kind(a) != "step":
                continue
            if self.step(a, "state") not in (RUNNING, SUCCEEDED):
                return False
            if not ignore_hold and self.step(a, "_holding") != 0:
                return False
        return True

    def regular_outputs(self, s):
        out = []
        for snk, dyn in self.sinks.get(s, ()):
            if snk in self.snap.files and self.attached(snk) and self.file_state(snk) != F["VOLATILE"]:
                out.append(snk)
        return out

    def implied_need(self, targets=(), target_dirs=()):
        """Least fixpoint of need* over attached steps (A.2)."""
        snap = self.snap
        steps = [i for i in snap.steps if self.attached(i)]
        need = {}
        tset = set(str(t) for t in targets)
        tdirs = [str(d) for d in target_dirs]
        for s in steps:
            n = self.step(s, "need")
            outs = [self.label(o) for o in self.regular_outputs(s)]
            if any(o in tset for o in outs):
                n = max(n, TARGET)
            elif n == DEFAULT and any(o.startswith(d) for o in outs for d in tdirs):
                n = max(n, TARGET)
            need[s] = n
        consumers = {}
        for s in steps:
            cs = set()
            for o, _ in self.sinks.get(s, ()):
                for t, _dyn in self.sinks.get(o, ()):
                    if t in need:
                        cs.add(t)
            consumers[s] = cs
        changed = True
        while changed:
            changed = False
            for s in steps:
                m = need[s]
                for t in consumers[s]:
                    if need[t] > m:
                        m = need[t]
                if m != need[s]:
                    need[s] = m
                    changed = True
        return need


def running_units(g: Graph):
    used = {}
    for (node, name), units in g.snap.res.items():
        if node in g.snap.steps and g.step(node, "state") == RUNNING:
            used[name] = used.get(name, 0) + units
    return used


def eligible(g: Graph, s, need, threshold, avail, for_check=None):
    """R-elig for step s in the state of `g`. Returns (bool, reason)."""
    if not g.attached(s):
        return False, "detached"
    if g.step(s, "state") != PENDING:
        return False, "not pending"
    if g.step(s, "deferred"):
        return False, "deferred"
    if need.get(s, OPTIONAL) <= threshold:
        return False, "not needed"
    has_hash = s in g.snap.step_hash
    check = has_hash if for_check is None else for_check
    if not g.safe(s, ignore_hold=check):
        return False, "creator chain not running/succeeded or holding"
    if not g.ready(s):
        return False, "an input is not available"
    if not check:
        used = running_units(g)
        for (node, name), units in g.snap.res.items():
            if node != s:
                continue
            if avail is None or name not in avail:
                return False, f"resource {name} undefined"
            if avail[name] - used.get(name, 0) < units:
                return False, f"resource {name} exhausted"
    return True, "eligible"


# =============================================================================================
# C09: invariants and transition whitelist
# =============================================================================================

STEP_EDGES = {
    (PENDING, RUNNING),
    (PENDING, CHECKING),
    (RUNNING, SUCCEEDED),
    (RUNNING, FAILED),
    (RUNNING, PENDING),
    (CHECKING, SUCCEEDED),
    (CHECKING, PENDING),
    (CHECKING, FAILED),
    (SUCCEEDED, PENDING),
    (FAILED, PENDING),
}

CREATOR_KINDS = {
    "file": {"step", "st", "root"},
    "step": {"step", "root"},
    "st": {"step"},
}
DEP_KINDS = {("file", "step"), ("step", "file"), ("st", "file")}


class InvariantMonitor(Monitor):
    """R-inv: graph-wide invariants after every commit + per-node transition whitelist."""

    name = "invariants"

    def __init__(self, strict_running_hash=True):
        super().__init__()
        self.strict_running_hash = strict_running_hash
        self.edges_seen = set()

    def on_commit(self, world, prev, snap, info):
        self.count("commits")
        self._stale_labels = getattr(world, "stale_labels", ())
        msgs = self.check_state(snap)
        for key, msg in msgs:
            self.violate("R-inv/state", "invariant", f"commit by {info['task']}: {msg}", key)
            if key == "dep-cycle":
                world.request_abort("dependency cycle committed: " + msg[:200])
        if prev is not None:
            for key, msg in self.check_transition(prev, snap):
                self.violate("R-inv/transition", "transition", f"commit by {info['task']}: {msg}", key)

    def check_state(self, snap):
        out = []
        nodes = snap.nodes
        reach = snap.attached_reachable()
        for i, (kind, label, creator, detached) in nodes.items():
            if kind == "root":
                continue
            if bool(detached) == (i in reach):
                out.append(
                    ("detached-flag", f"{snap.key(i)} detached={detached} reachable={i in reach}")
                )
            if creator is None and not detached:
                out.append(("creator-null-attached", snap.key(i)))
            if creator is not None:
                ck = nodes.get(creator, (None,))[0]
                if ck not in CREATOR_KINDS.get(kind, set()):
                    out.append(("creator-kind", f"{snap.key(i)} created by {ck}"))
            if kind == "file" and i not in snap.files:
                out.append(("file-row-missing", snap.key(i)))
            if kind == "step" and i not in snap.steps:
                out.append(("step-row-missing", snap.key(i)))
        # dependencies
        adj = {}
        for idep, (src, snk) in snap.deps.items():
            if src not in nodes or snk not in nodes:
                out.append(("dep-dangling", f"dependency {idep}: {src}->{snk}"))
                continue
            if (nodes[src][0], nodes[snk][0]) not in DEP_KINDS:
                out.append(("dep-kinds", f"{snap.key(src)} -> {snap.key(snk)}"))
            adj.setdefault(src, []).append(snk)
        cyc = _find_cycle(adj)
        if cyc is not None:
            out.append(("dep-cycle", " -> ".join(snap.key(i) for i in cyc)))
        for idep in snap.dyn:
            if idep not in snap.deps:
                out.append(("dynamic-dep-dangling", str(idep)))
        # files
        for i, (state, hj) in snap.files.items():
            if i not in nodes:
                out.append(("file-orphan-row", str(i)))
                continue
            det = nodes[i][3]
            if state == F["UNDECLARED"] and not det:
                out.append(("undeclared-attached", snap.key(i)))
            if state in (F["CONFIRMED"], F["BUILT"], F["OUTDATED"]) and hj is None:
                out.append(("hash-missing", f"{snap.key(i)} {FNAME[state]}"))
            if state in (F["MISSING"], F["PLANNED"], F["VOLATILE"]) and hj is not None:
                out.append(("hash-unexpected", f"{snap.key(i)} {FNAME[state]}"))
        # steps
        nboot = 0
        sinks = {}
        for idep, (src, snk) in snap.deps.items():
            sinks.setdefault(src, []).append(snk)
        for i, row in snap.steps.items():
            if i not in nodes:
                out.append(("step-orphan-row", str(i)))
                continue
            state = row[COL["state"]]
            det = nodes[i][3]
            if nodes[i][2] == 1 and not det:
                nboot += 1
            if bool(row[COL["_has_hash"]]) != (i in snap.step_hash):
                out.append(("has-hash-cache", f"{snap.key(i)} _has_hash={row[COL['_has_hash']]}"))
            if row[COL["deferred"]] and state != PENDING:
                out.append(("deferred-not-pending", snap.key(i)))
            if row[COL["_holding"]] and state != RUNNING:
                # Not an invariant: a hold() request that was received in full is applied even
                # when its step has meanwhile been killed (C15); the step_reset_holding trigger
                # clears the counter at the next state change.
                self.count("probe.holding_while_" + SNAME[state])
            if state == SUCCEEDED and not det:
                for o in sinks.get(i, ()):
                    if o in snap.files and not nodes[o][3]:
                        fs = snap.files[o][0]
                        if fs not in (F["BUILT"], F["VOLATILE"]):
                            out.append(
                                (
                                    "succeeded-output-not-built",
                                    f"{snap.key(i)} output {snap.key(o)} is {FNAME[fs]}",
                                )
                            )
            if self.strict_running_hash:
                if state == RUNNING and i in snap.step_hash:
                    out.append(("running-with-hash", snap.key(i)))
                if state == CHECKING and i not in snap.step_hash:
                    out.append(("checking-without-hash", snap.key(i)))
        if nboot > 1:
            out.append(("boot-steps", f"{nboot} boot steps"))
        # one attached claim per path is guaranteed by the unique (kind,label) index
        return out

    def check_transition(self, prev, snap):
        out = []
        for i, row in snap.steps.items():
            prow = prev.steps.get(i)
            if prow is None:
                if row[COL["state"]] != PENDING:
                    out.append(("new-step-not-pending", f"{snap.key(i)} {SNAME[row[COL['state']]]}"))
                continue
            a, b = prow[COL["state"]], row[COL["state"]]
            if a == b:
                continue
            self.edges_seen.add(("step", SNAME[a], SNAME[b]))
            if (a, b) in STEP_EDGES:
                continue
            was_detached = prev.nodes[i][3]
            if b == PENDING and was_detached:
                continue  # re-declaration of a detached step resets it
            key = "step-edge"
            if snap.nodes[i][1] in getattr(self, "_stale_labels", ()):
                # known finding F5: the step was dispatched as a stale child, detached and
                # re-declared (row reset to PENDING) while its command was still running
                key = "step-edge:stale-child-redefined-while-running"
            out.append((key, f"{snap.key(i)} {SNAME[a]} -> {SNAME[b]}"))
        for i, (state, hj) in snap.files.items():
            p = prev.files.get(i)
            if p is None or i not in prev.nodes or i not in snap.nodes:
                continue
            a = p[0]
            if a == state:
                continue
            self.edges_seen.add(("file", FNAME[a], FNAME[state]))
            pn, sn = prev.nodes[i], snap.nodes[i]
            if not pn[3] and not sn[3] and pn[2] == sn[2]:
                # attached before and after, same creator: the role may not change
                if ROLE[a] != ROLE[state]:
                    out.append(("file-role-change", f"{snap.key(i)} {FNAME[a]} -> {FNAME[state]}"))
                if state == F["UNCONFIRMED"]:
                    out.append(("file-back-to-unconfirmed", f"{snap.key(i)} from {FNAME[a]}"))
            if state == F["UNDECLARED"] and a in (F["BUILT"], F["OUTDATED"]):
                out.append(("output-memory-lost", f"{snap.key(i)} {FNAME[a]} -> UNDECLARED"))
        return out


def _find_cycle(adj):
    WHITE, GREY, BLACK = 0, 1, 2
    color = {}
    for start in list(adj):
        if color.get(start, WHITE) != WHITE:
            continue
        stack = [(start, iter(adj.get(start, ())))]
        color[start] = GREY
        path = [start]
        while stack:
            node, it = stack[-1]
            nxt = next(it, None)
            if nxt is None:
                color[node] = BLACK
                stack.pop()
                path.pop()
                continue
            c = color.get(nxt, WHITE)
            if c == GREY:
                k = path.index(nxt)
                return path[k:] + [nxt]
            if c == WHITE:
                color[nxt] = GREY
                stack.append((nxt, iter(adj.get(nxt, ()))))
                path.append(nxt)
    return None


INTERNAL_ERRORS = ("ConsistencyError", "IntegrityError", "AssertionError", "OperationalError")


class ErrorClassMonitor(Monitor):
    """No request makes StepUp raise an internal consistency error (C09, second half)."""

    name = "errors"

    def __init__(self):
        super().__init__()
        self.injected = 0  # number of injected SQL faults that may surface as internal errors

    def on_rpc_failure(self, world, rid, call, failure):
        self.count("rpc_failures")
        if failure.usage:
            self.count("usage_errors")
            return
        q = failure.qualname
        if q == "InjectedSQLError" or "injected fault" in failure.message:
            self.count("injected_sql_failures")
            return
        nested = q == "RuntimeError" and "Nested DBSession" in failure.message
        if q in INTERNAL_ERRORS or nested:
            self.violate(
                "R-inv/error-class",
                "internal-error",
                f"request {call.name} failed with {q}: {failure.message[:500]}",
                f"internal:{q}:{call.name}",
            )
        else:
            self.count("other_nonusage:" + q)


# =============================================================================================
# C10: dispatch is exact
# =============================================================================================


def build_params(world):
    """(targets, target_dirs, threshold, available resources) of the live director."""
    from stepup.core.utils import parse_resources

    cfg = world.serve_config
    targets = [str(t) for t in (cfg.targets if cfg is not None else [])]
    tdirs = [str(t) for t in (cfg.target_dirs if cfg is not None else [])]
    threshold = DEFAULT if (targets or tdirs) else OPTIONAL
    avail = None
    if cfg is not None and cfg.available_resources is not None:
        avail = dict(parse_resources(cfg.available_resources))
    return targets, tdirs, threshold, avail


class DispatchMonitor(Monitor):
    """R-elig at every dispatch, cache agreement, completeness at phase end."""

    name = "dispatch"

    def __init__(self, check_caches=True):
        super().__init__()
        self.check_caches = check_caches
        self.log_pos = 0
        self.phase_end_pending = False

    def on_build_start(self, world):
        self.log_pos = len(world.log)
        self.phase_end_pending = False

    def on_commit(self, world, prev, snap, info):
        # did a build phase end since the previous commit?
        for ev in world.log[self.log_pos :]:
            if ev[2] == "report" and ev[3] == "DIRECTOR" and ev[4].startswith("Ran "):
                self.phase_end_pending = True
            elif ev[2] == "report" and ev[3] == "PHASE" and ev[4] == "build":
                self.phase_end_pending = False
        self.log_pos = len(world.log)
        if prev is None:
            return
        targets, tdirs, threshold, avail = build_params(world)
        dispatched = []
        for i, row in snap.steps.items():
            prow = prev.steps.get(i)
            if prow is None:
                continue
            a, b = prow[COL["state"]], row[COL["state"]]
            if a == PENDING and b in (RUNNING, CHECKING):
                dispatched.append((i, b))
        if dispatched:
            g = Graph(prev)
            need = g.implied_need(targets, tdirs)
            for i, b in dispatched:
                self.count("dispatch.run" if b == RUNNING else "dispatch.check")
                world.log_event("dispatch", prev.nodes[i][1], SNAME[b])
                ok, why = eligible(g, i, need, threshold, avail, for_check=(b == CHECKING))
                if not ok:
                    self.violate(
                        "R-elig/soundness",
                        "ineligible-dispatch",
                        f"{prev.key(i)} dispatched as {SNAME[b]} although: {why}",
                        f"ineligible:{why.split(' ')[0]}",
                    )
                if b == CHECKING and g.step(i, "_holding" ) is not None:
                    if not g.safe(i) and g.safe(i, ignore_hold=True):
                        world.count("probe.hash_check_bypasses_hold")
            if self.check_caches:
                self._check_caches(world, g, need, snap)
        if self.phase_end_pending:
            self.phase_end_pending = False
            draining = bool(world.handler is not None and world.handler.scheduler.draining)
            if not draining:
                # the state in which job_loop returned: no commit lies between the end of the
                # loop and this one, so that state is `prev` (a straggling request of a dead
                # client may change the graph afterwards, which is not the loop's doing)
                g = Graph(prev)
                need = g.implied_need(targets, tdirs)
                left = []
                for i in prev.steps:
                    ok, why = eligible(g, i, need, threshold, avail)
                    if ok:
                        left.append(prev.key(i))
                self.count("phase_end_checked")
                if left:
                    self.violate(
                        "R-elig/completeness",
                        "eligible-left",
                        f"build phase ended (not draining) with eligible steps: {sorted(left)[:5]}",
                        "eligible-left",
                    )

    def _check_caches(self, world, g, need, snap):
        """Cached scheduling attributes (as committed) against definitions on the pre-state."""
        for i in g.snap.steps:
            if not g.attached(i) or i not in snap.steps:
                continue
            row = snap.steps[i]
            exp_safe = g.safe(i)
            exp_safe_nh = g.safe(i, ignore_hold=True)
            if g.creator(i) == 1:
                # the boot step is seeded safe; the definition agrees (empty creator chain)
                pass
            got = (bool(row[COL["_safe"]]), bool(row[COL["_safe_ignoring_hold"]]))
            if got != (exp_safe, exp_safe_nh):
                self.violate(
                    "R-elig/cache",
                    "cache-safe",
                    f"{g.snap.key(i)}: _safe,_safe_ignoring_hold={got} definition={(exp_safe, exp_safe_nh)}",
                    "cache-safe",
                )
            if row[COL["_implied_need"]] != need[i]:
                self.violate(
                    "R-elig/cache",
                    "cache-need",
                    f"{g.snap.key(i)}: _implied_need={row[COL['_implied_need']]} definition={need[i]}",
                    "cache-need",
                )
            if bool(row[COL["_ready"]]) != g.ready(i):
                self.violate(
                    "R-elig/cache",
                    "cache-ready",
                    f"{g.snap.key(i)}: _ready={row[COL['_ready']]} definition={g.ready(i)}",
                    "cache-ready",
                )
        if snap.temp is not None and snap.temp.get("need_count") is not None:
            recount = {}
            g2 = Graph(snap)
            for i, row in snap.steps.items():
                if snap.nodes[i][3]:
                    continue
                k = (row[COL["_implied_need"]], int(row[COL["state"]] == SUCCEEDED))
                recount[k] = recount.get(k, 0) + 1
            have = {k: v for k, v in snap.temp["need_count"].items() if v}
            if have != recount:
                self.violate(
                    "R-elig/cache",
                    "cache-need-count",
                    f"step_need_count={have} recount={recount}",
                    "cache-need-count",
                )


# =============================================================================================
# C12: job, resource and hold limits (ground truth: the command log and the request log)
# =============================================================================================


class LimitMonitor(Monitor):
    name = "limits"

    def __init__(self):
        super().__init__()
        self.running = {}  # pid -> (label, resources)
        self.hold_depth = {}  # job_i -> depth (accepted hold minus accepted release)
        self.held = {}  # step label -> job_i that declared it inside a hold block
        self.job_label = {}
        self.max_running = 0
        # label -> resources of the last accepted declaration (the program's own words, not
        # what the database happens to hold for the step)
        self.declared_res = {}

    def on_build_start(self, world):
        self.running.clear()
        self.hold_depth.clear()
        self.held.clear()
        self.job_label.clear()

    def _resources_of(self, world, label):
        if label in self.declared_res:
            return dict(self.declared_res[label])
        snap = world.prev_snap
        if snap is None:
            return {}
        for i, (kind, lab, creator, det) in snap.nodes.items():
            if kind == "step" and lab == label:
                return {name: u for (n, name), u in snap.res.items() if n == i}
        return {}

    def on_cmd_start(self, world, proc):
        cfg = world.serve_config
        njob = cfg.njob if cfg is not None else 1
        res = self._resources_of(world, proc.label)
        self.running[proc.pid] = (proc.label, res)
        self.job_label[proc.job_i] = proc.label
        self.count("commands")
        n = len(self.running)
        self.max_running = max(self.max_running, n)
        if n == njob:
            world.count("probe.job_limit_reached")
        if n > njob:
            self.violate(
                "R-limit/jobs",
                "too-many-commands",
                f"{n} commands running with --jobs={njob}: {sorted(l for l, _ in self.running.values())}",
                "jobs-exceeded",
            )
        _t, _td, _thr, avail = build_params(world)
        used = {}
        for lab, r in self.running.values():
            for name, u in r.items():
                used[name] = used.get(name, 0) + u
        for name, u in res.items():
            if avail is None or name not in avail:
                self.violate(
                    "R-limit/resources",
                    "undefined-resource-ran",
                    f"{proc.label} requires undefined resource {name} and was started",
                    "resource-undefined",
                )
            elif used[name] > avail[name]:
                self.violate(
                    "R-limit/resources",
                    "resource-overcommitted",
                    f"resource {name}: {used[name]} units in use, {avail[name]} available; "
                    f"running: {sorted((l, r) for l, r in self.running.values() if name in r)}",
                    "resource-exceeded",
                )
            elif used[name] == avail[name]:
                world.count("probe.resource_limit_reached")
        j = self.held.get(proc.label)
        if j is not None:
            holder = self.job_label.get(j)
            key = "hold-violated"
            if holder in getattr(world, "stale_labels", ()):
                # known finding F5: the holder itself was a stale child that kept running while
                # its creator reran and recycled it (after_recycle resets _holding)
                key = "hold-violated-holder-recycled-while-running"
            self.violate(
                "R-limit/hold",
                "started-while-held",
                f"{proc.label} was declared inside a hold() block of job {j} "
                f"({holder}) that has not been released, and its command started",
                key,
            )

    def on_cmd_end(self, world, proc, rc):
        self.running.pop(proc.pid, None)
        # the process of job proc.job_i is gone: whatever it still holds stays held until
        # somebody declares those steps again
        self.hold_depth.pop(proc.job_i, None)

    def on_rpc_done(self, world, call, ok):
        if not call.args:
            return
        job = call.args[0]
        if call.name == "hold_dispatch" and ok:
            self.hold_depth[job] = self.hold_depth.get(job, 0) + 1
            world.count("probe.hold")
            if self.hold_depth[job] > 1:
                world.count("probe.nested_hold")
        elif call.name == "release_dispatch" and ok:
            d = self.hold_depth.get(job, 0) - 1
            self.hold_depth[job] = max(d, 0)
            if d <= 0:
                for lab in [l for l, j in self.held.items() if j == job]:
                    del self.held[lab]
        elif call.name == "define_step" and ok:
            from stepup.core.step import Step

            try:
                label = Step.adjust_label(call.args[1], workdir=_norm_wd(call.args[6]))
            except Exception:  # noqa: BLE001
                return
            res = call.kwargs.get("resources") if getattr(call, "kwargs", None) else None
            if res is None and len(call.args) > 8:
                res = call.args[8]
            self.declared_res[label] = {k: int(v) for k, v in dict(res or {}).items()}
            if self.hold_depth.get(job, 0) > 0:
                self.held[label] = job
                world.count("probe.defined_under_hold")
            else:
                self.held.pop(label, None)


def _norm_wd(wd):
    wd = str(wd)
    if wd in ("", "./"):
        return "."
    return wd


# =============================================================================================
# C03: a step only succeeds on inputs that were final while it ran
# =============================================================================================


class InputFinalityMonitor(Monitor):
    name = "inputs"

    def __init__(self):
        super().__init__()
        self.cmd_running = {}  # label -> pid
        self.last_rc = {}  # label -> rc of its last command in this build
        self.windows = {}  # pid -> dict(label, start_seq, end_seq, reads)
        self.success = []  # (label, pid) of completed successful runs
        self.build_log_start = 0
        self.refreshed = set()
        self.refreshed_kind = {}
        # label -> what the command of its last recorded success read (kept across builds):
        # a later skip of the step vouches for exactly these contents
        self.last_success_reads = {}
        self.skips = []  # (label, inputs) of skip checks that ended SUCCEEDED in this build

    def on_build_start(self, world):
        self.cmd_running.clear()
        self.last_rc.clear()
        self.windows.clear()
        self.success.clear()
        self.skips.clear()
        self.build_log_start = len(world.log)

    def on_cmd_start(self, world, proc):
        import os

        label = proc.label
        self.cmd_running[label] = proc.pid
        self.windows[proc.pid] = {"label": label, "start": len(world.log), "end": None}
        snap = world.prev_snap
        if snap is None:
            return
        sid = None
        for i, (kind, lab, creator, det) in snap.nodes.items():
            if kind == "step" and lab == label:
                sid = i
                break
        if sid is None:
            return
        declared = self.windows[proc.pid]["declared"] = set()
        for idep, (src, snk) in snap.deps.items():
            if snk != sid or idep in snap.dyn or src not in snap.files:
                continue
            path = snap.nodes[src][1]
            declared.add(path)
            producers = [
                snap.nodes[s2][1]
                for d2, (s2, k2) in snap.deps.items()
                if k2 == src and snap.nodes[s2][0] == "step"
            ]
            ap = os.path.join(world.root, path)
            self.count("initial_inputs_checked")
            if not os.path.exists(ap):
                if any(
                    ev[2] == "fs" and ev[3] == "user" and ev[5] == path
                    for ev in world.log[self.build_log_start :]
                ):
                    # the user removed a confirmed file during this build: not StepUp's doing
                    world.count("probe.input_removed_by_user_before_start")
                    continue
                self.violate(
                    "R-start/ground-truth",
                    "input-missing-at-start",
                    f"{label} started while its declared input {path} does not exist",
                    "start-input-missing",
                )
                continue
            for producer in producers:
                if producer in self.cmd_running and producer != label:
                    self.violate(
                        "R-start/ground-truth",
                        "producer-running-at-start",
                        f"{label} started while the producer {producer} of its declared input "
                        f"{path} is still running",
                        "start-producer-running",
                    )
                elif self.last_rc.get(producer, 0) != 0:
                    self.violate(
                        "R-start/ground-truth",
                        "producer-failed-at-start",
                        f"{label} started although the last command of {producer} (producer of "
                        f"{path}) ended with {self.last_rc[producer]}",
                        "start-producer-failed",
                    )

    def on_cmd_end(self, world, proc, rc):
        self.cmd_running.pop(proc.label, None)
        self.last_rc[proc.label] = rc
        w = self.windows.get(proc.pid)
        if w is not None:
            w["end"] = len(world.log)
            w["reads"] = list(proc.reads)

    def on_commit(self, world, prev, snap, info):
        if prev is None:
            return
        for i, row in snap.steps.items():
            prow = prev.steps.get(i)
            if prow is None:
                continue
            if prow[COL["state"]] == RUNNING and row[COL["state"]] == SUCCEEDED:
                label = snap.nodes[i][1]
                # the window of the last finished command of this label
                cand = [
                    (pid, w)
                    for pid, w in self.windows.items()
                    if w["label"] == label and w["end"] is not None
                ]
                if not cand:
                    continue
                pid, w = max(cand)
                inputs = set()
                for idep, (src, snk) in snap.deps.items():
                    if snk == i and src in snap.files:
                        inputs.add(snap.nodes[src][1])
                self.count("successes_checked")
                actor_self = f"step:{pid}"
                pending_window = []
                read_digest = {}
                for rp, rd in w.get("reads", []):
                    read_digest.setdefault(rp, rd)
                for ev in world.log[w["start"] : w["end"]]:
                    if ev[2] == "fs" and ev[4] in ("write", "remove", "rename", "rmdir"):
                        if ev[4] == "write" and read_digest.get(ev[5], ev[6]) == ev[6]:
                            # rewritten with the very content the step read (or a file it
                            # never read): the content was kept
                            continue
                        if ev[5] in inputs and ev[3] != actor_self:
                            key = "succeeded-despite-change"
                            # known finding F8: a sibling consumer failed on the same change
                            # first and stored the new hash, which this step is compared with
                            for ev2 in world.log[ev[0] :]:
                                if (
                                    ev2[2] == "report"
                                    and ev2[3] == "FAIL"
                                    and ev2[4] != label
                                    and "Invalid inputs" in ev2[5]
                                ):
                                    key = "succeeded-despite-change:hash-refreshed-by-failed-sibling"
                                    # fixed for inputs verified before the command (repo commit
                                    # "compare a step's inputs after its command ..."); amended
                                    # inputs are still compared with the refreshed hash
                                    key += ":declared-input" if ev[5] in w.get("declared", ()) else ":amended-input"
                                    self.refreshed.add(label)
                                    self.refreshed_kind[(label, ev[5])] = key.rsplit(":", 1)[1]
                                    break
                            pending_window.append((
                                "R-final/window",
                                "input-changed-while-running",
                                f"{label} recorded as SUCCEEDED although its input {ev[5]} was "
                                f"changed ({ev[4]} by {ev[3]}) while its command ran",
                                key,
                            ))
                self.success.append((label, pid, sorted(inputs), w.get("reads", []), pending_window))
                self.last_success_reads[label] = list(w.get("reads", []))
            elif prow[COL["state"]] == CHECKING and row[COL["state"]] == SUCCEEDED:
                # skipped: the outputs of the last success are taken to be up to date
                label = snap.nodes[i][1]
                inputs = set()
                for idep, (src, snk) in snap.deps.items():
                    if snk == i and src in snap.files and not snap.nodes[src][3]:
                        inputs.add(snap.nodes[src][1])
                # judged against what is recorded at the moment the skip is committed: a change
                # after that moment is not the skip's doing
                at_skip = {}
                for j, (st_, hj) in snap.files.items():
                    if j in snap.nodes and snap.nodes[j][1] in inputs:
                        at_skip[snap.nodes[j][1]] = _hex_digest(hj)
                self.skips.append((label, sorted(inputs), at_skip))
                self.count("skips_checked")

    def on_build_end(self, world, result):
        """Every content a finally-SUCCEEDED step read equals the final content of that input."""
        import os

        from .simfs import digest_of

        snap = world.prev_snap
        if snap is None:
            return
        final_state = {}
        for i, row in snap.steps.items():
            final_state[snap.nodes[i][1]] = (row[COL["state"]], snap.nodes[i][3])
        recorded = {}
        file_state = {}
        for i, (st_, hj) in snap.files.items():
            if i in snap.nodes:
                recorded[snap.nodes[i][1]] = _hex_digest(hj)
                file_state[snap.nodes[i][1]] = st_
        last = {}
        for label, pid, inputs, reads, pending_window in self.success:
            if label in last and last[label][3]:
                world.count("probe.success_superseded_by_rerun")
            last[label] = (pid, inputs, reads, pending_window)
        for label, (pid, inputs, reads, pending_window) in last.items():
            st = final_state.get(label)
            if st is None or st[0] != SUCCEEDED or st[1]:
                if pending_window:
                    world.count("probe.success_invalidated_before_end")
                continue
            # only a success that still stands at the end of the build is judged
            for v in pending_window:
                self.violate(*v)
            for relpath, d in reads:
                if relpath not in inputs:
                    continue
                now = recorded.get(relpath, "absent")
                self.count("reads_checked")
                if d != now:
                    key = "succeeded-on-stale-read"
                    if label in self.refreshed:
                        key += ":hash-refreshed-by-failed-sibling:" + self.refreshed_kind.get((label, relpath), "amended-input")
                    elif file_state.get(relpath) in (F["OUTDATED"], F["PLANNED"]):
                        # known finding F9: the input was changed after this step finished;
                        # it is OUTDATED now but its consumers were not made pending
                        key += ":input-outdated-consumer-not-pending"
                    self.violate(
                        "R-final/content",
                        "stale-read",
                        f"{label} is SUCCEEDED but read {relpath} with digest {d}, "
                        f"while the recorded content is {now} at the end of the build",
                        key,
                    )
        _judge_skips(self, world, final_state, recorded)


def _judge_skips(mon, world, final_state, recorded):
    """A step that was skipped and is SUCCEEDED at the end of the build vouches for outputs
    that its last successful command derived from what that command read: every input must
    still have that content."""
    ran_after = {label for label, *_ in mon.success}
    for label, inputs, at_skip in mon.skips:
        st = final_state.get(label)
        if st is None or st[0] != SUCCEEDED or st[1] or label in ran_after:
            continue
        for relpath, d in mon.last_success_reads.get(label, ()):
            if relpath not in inputs:
                continue
            now = at_skip.get(relpath)
            if now in (None, "?"):
                continue
            if d != now:
                key = "skipped-on-changed-input"
                if label in mon.refreshed:
                    # consequence of known finding F8: the last success itself was recorded on
                    # content the command had not read
                    key += ":hash-refreshed-by-failed-sibling:" + mon.refreshed_kind.get((label, relpath), "amended-input")
                mon.violate(
                    "R-final/skip",
                    "skipped-on-changed-input",
                    f"{label} was skipped and is SUCCEEDED, but its last command read {relpath} "
                    f"with digest {d} and the content recorded when the skip was committed is {now}",
                    key,
                )
                break


def _hex_digest(hash_json):
    """First 16 hex digits of the content digest in a stored FileHash, or None."""
    if hash_json is None:
        return None
    from stepup.core.hash import FileHash

    try:
        return FileHash.from_json(hash_json).digest.hex()[:16]
    except Exception:  # noqa: BLE001
        return "?"


# =============================================================================================
# C19: exit status and final report
# =============================================================================================


class ExitStatusMonitor(Monitor):
    name = "exit"

    def __init__(self):
        super().__init__()
        self.reports = []  # one per report_unbuilt call

    def on_report_unbuilt(self, world, snap, draining, returncode, pending):
        """Called by the wrapper around finalize.report_unbuilt."""
        from stepup.core.enums import ReturnCode

        self.count("reports")
        targets, tdirs, threshold, avail = build_params(world)
        g = Graph(snap)
        need = g.implied_need(targets, tdirs)
        failed = [
            snap.key(i)
            for i, row in snap.steps.items()
            if g.attached(i) and row[COL["state"]] == FAILED
        ]
        pend_required = [
            snap.key(i)
            for i, row in snap.steps.items()
            if g.attached(i) and row[COL["state"]] == PENDING and need[i] > threshold
        ]
        not_done_required = [
            snap.key(i)
            for i, row in snap.steps.items()
            if g.attached(i) and row[COL["state"]] != SUCCEEDED and need[i] > threshold
        ]
        rc = returncode
        has = lambda flag: bool(rc & flag)  # noqa: E731
        reports = [r for r in world.reports[-40:]]
        glob_error = any(
            tag == "ERROR" and "glob match(es) are files that a step builds" in desc
            for tag, desc, pages in reports
        )
        if failed and not has(ReturnCode.FAILED):
            self.violate(
                "R-exit/failed",
                "failed-bit-missing",
                f"steps {failed[:4]} are FAILED but the exit status {rc} lacks FAILED",
                "failed-bit-missing",
            )
        if has(ReturnCode.FAILED) and not failed and not glob_error:
            self.violate(
                "R-exit/failed",
                "failed-bit-unjustified",
                f"exit status {rc} has FAILED but no active step is FAILED and no product match was reported",
                "failed-bit-unjustified",
            )
        if bool(draining) != has(ReturnCode.DRAINED):
            self.violate(
                "R-exit/drained",
                "drained-bit",
                f"draining={draining} but exit status is {rc}",
                "drained-bit",
            )
        want_pending = (not draining) and bool(pend_required)
        if want_pending != has(ReturnCode.PENDING):
            self.violate(
                "R-exit/pending",
                "pending-bit",
                f"draining={draining}, required pending steps={pend_required[:4]} "
                f"but exit status is {rc}",
                "pending-bit-" + ("missing" if want_pending else "unjustified"),
            )
        if rc == ReturnCode(0) and not_done_required:
            self.violate(
                "R-exit/zero",
                "zero-with-unfinished",
                f"exit status 0 although required steps are not SUCCEEDED: {not_done_required[:4]}",
                "zero-with-unfinished",
            )
        if pending is not None:
            summary, totals = pending
            self.count("summaries")
            s_attr = sum(totals.values()) + summary.cyclic.nblocked
            if summary.ntotal != len(pend_required):
                self.violate(
                    "R-exit/summary",
                    "summary-total",
                    f"summary counts {summary.ntotal} pending steps, definition gives "
                    f"{len(pend_required)}: {pend_required[:5]}",
                    "summary-total",
                )
            if s_attr != summary.ntotal:
                self.violate(
                    "R-exit/summary",
                    "summary-partition",
                    f"attributed {dict(totals)} + cyclic {summary.cyclic.nblocked} != total {summary.ntotal}",
                    "summary-partition",
                )
            if summary.runnable.nblocked and not draining:
                self.violate(
                    "R-exit/summary",
                    "summary-runnable",
                    f"{summary.runnable.nblocked} pending step(s) reported as runnable at the end "
                    f"of a build phase that was not cut short, e.g. {summary.runnable.example}",
                    "summary-runnable",
                )
            # what the report shows must cover what was attributed: a step attributed to a
            # dead-end file or an unsatisfiable resource is in no bucket, so it has to be among
            # the steps counted in that table (exact transitive counts, never smaller than the
            # attributed ones), and each bucket shows exactly its attributed count
            shown = {
                0: sum(r.nblocked for r in summary.inputs) + summary.ninputs_hidden_blocked,
                1: sum(r.nblocked for r in summary.resources) + summary.nresources_hidden_blocked,
            }
            for kind, name in ((0, "inputs"), (1, "resources")):
                if totals.get(kind, 0) > shown[kind]:
                    self.violate(
                        "R-exit/summary",
                        "summary-table-undercounts",
                        f"{totals.get(kind, 0)} pending step(s) are attributed to {name} but the "
                        f"{name} table accounts for {shown[kind]} only",
                        f"summary-undercount-{name}",
                    )
            for kind, name in ((2, "failed"), (3, "deferred"), (4, "other"), (5, "runnable")):
                if totals.get(kind, 0) != getattr(summary, name).nblocked:
                    self.violate(
                        "R-exit/summary",
                        "summary-bucket",
                        f"bucket {name} shows {getattr(summary, name).nblocked}, attributed {totals.get(kind, 0)}",
                        f"summary-bucket-{name}",
                    )
            for k in ("failed", "deferred", "other", "cyclic"):
                if getattr(summary, k).nblocked:
                    world.count(f"probe.pending_bucket_{k}")
            if summary.inputs:
                world.count("probe.pending_bucket_inputs")
            if summary.resources:
                world.count("probe.pending_bucket_resources")


# =============================================================================================
# Ownership history: which paths StepUp ever recorded as (volatile) outputs, with which digest
# =============================================================================================


class OutputRecorder(Monitor):
    """Per universe: path -> (role, last recorded content digest) over all commits."""

    name = "outputs"

    def __init__(self):
        super().__init__()
        self.recorded = {}  # path -> {"role": "out"|"vol", "digest": hex16|None}
        self.ever_declared = set()  # paths ever attached in an output/volatile role
        self.ever_static = set()

    def on_commit(self, world, prev, snap, info):
        for i, (state, hj) in snap.files.items():
            n = snap.nodes.get(i)
            if n is None:
                continue
            path = n[1]
            if state in (F["BUILT"], F["OUTDATED"]):
                if hj is not None:
                    self.recorded[path] = {"role": "out", "digest": _hex_digest(hj)}
                self.ever_declared.add(path)
            elif state == F["VOLATILE"]:
                self.recorded[path] = {"role": "vol", "digest": None}
                self.ever_declared.add(path)
            elif state == F["PLANNED"] and not n[3]:
                self.ever_declared.add(path)
            elif state in (F["CONFIRMED"], F["MISSING"], F["UNCONFIRMED"]) and not n[3]:
                self.ever_static.add(path)


# =============================================================================================
# C08 / C15: ownership invariants, accepted => effect, rejected => unchanged
# =============================================================================================


def snapshots_equal(a, b, ignore=()):
    """Equality of the persistent tables, ignoring the scheduler's recomputation flags."""
    if a is None or b is None:
        return True, ""
    for name in ("nodes", "deps", "files", "step_hash", "dyn", "env", "nglob", "res"):
        if name in ignore:
            continue
        if getattr(a, name) != getattr(b, name):
            da, db_ = getattr(a, name), getattr(b, name)
            diff = [k for k in set(da) | set(db_) if da.get(k) != db_.get(k)][:3]
            return False, f"table {name} differs at {diff}: {[da.get(k) for k in diff]} -> {[db_.get(k) for k in diff]}"
    for i in set(a.steps) | set(b.steps):
        ra, rb = a.steps.get(i), b.steps.get(i)
        if ra is None or rb is None:
            return False, f"step row {i} appeared/disappeared"
        for col in ("state", "need", "deferred", "defer_count", "shell", "env_overrides", "_holding", "duration"):
            if ra[COL[col]] != rb[COL[col]]:
                return False, f"step {a.key(i)}.{col}: {ra[COL[col]]} -> {rb[COL[col]]}"
    return True, ""


class OwnershipMonitor(Monitor):
    """C08: one owner per path, trees own everything beneath them, patterns match no product."""

    name = "ownership"

    def __init__(self):
        super().__init__()
        self.seen_pairs = set()

    def on_commit(self, world, prev, snap, info):
        import re

        self.count("commits")
        nodes = snap.nodes
        trees = [(label, i) for i, (kind, label, c, det) in nodes.items() if kind == "st" and not det]
        for k, (ta, ia) in enumerate(trees):
            for tb, ib in trees[k + 1 :]:
                if ta.startswith(tb) or tb.startswith(ta):
                    self.violate("R-own/trees", "nested-trees", f"static trees overlap: {ta} and {tb}", "nested-trees")
        products = []
        for i, (kind, label, c, det) in nodes.items():
            if kind != "file" or det or i not in snap.files:
                continue
            role = ROLE[snap.files[i][0]]
            if role in ("OUTPUT", "VOLATILE"):
                products.append(label)
            for tl, ti in trees:
                if label.startswith(tl) and c != ti:
                    self.violate(
                        "R-own/tree-file", "file-under-tree-other-owner",
                        f"{label} ({FNAME[snap.files[i][0]]}) lies under static tree {tl} but is owned by {snap.key(c) if c in nodes else c}",
                        "file-under-tree",
                    )
                elif label.startswith(tl) and role != "STATIC":
                    # owned by the tree, but still in the role of something a step builds
                    self.violate(
                        "R-own/tree-file", "product-under-tree",
                        f"{label} lies under static tree {tl} and is {FNAME[snap.files[i][0]]} (role {role})",
                        "product-under-tree",
                    )
        if products:
            for (node, pat, rx, data) in snap.nglob.values():
                if node in nodes and not nodes[node][3]:
                    cre = re.compile(rx)
                    for p in products:
                        if cre.fullmatch(p):
                            pair = (nodes[node][1], pat, p)
                            if pair in self.seen_pairs:
                                continue
                            self.seen_pairs.add(pair)
                            key = "glob-matches-product"
                            task = info.get("task", "")
                            if task.startswith(("RPC:declare_static", "RPC:register_glob")):
                                # known finding F11: the pattern arrived second and the product
                                # is not on disk, so it is not among the matches that are validated
                                key += ":pattern-registered-after-planned-output"
                            self.violate(
                                "R-own/glob", "glob-matches-product",
                                f"pattern {pat} of {nodes[node][1]} matches build product {p} "
                                f"(first seen at the commit of {task})",
                                key,
                            )

    def on_request_done(self, world, call, ok, result, txns):
        """An accepted declaration is in effect, held by its declarer, right after its commit."""
        if not ok or not txns or call.name not in ("declare_static", "define_step", "amend_step", "register_glob"):
            return
        kind, before, after = txns[0] if call.name != "amend_step" else txns[0]
        if kind != "commit" or after is None:
            return
        self.count("accepted." + call.name)
        snap = after
        job = call.args[0]
        declarer = world.handler.scheduler.jobs.get(job) if world.handler is not None else None
        if declarer is None:
            return
        did = declarer.i
        by_label = {}
        for i, (k, label, c, det) in snap.nodes.items():
            by_label[(k, label)] = i

        def owner_ok(i, expect_creator):
            c = snap.nodes[i][2]
            if c == expect_creator:
                return True
            # handed over to a tree of the same declarer
            return c in snap.nodes and snap.nodes[c][0] == "st" and snap.nodes[c][2] == expect_creator

        def check_file(path, roles, creator, what):
            i = by_label.get(("file", str(path)))
            if i is None or i not in snap.files:
                self.violate("R-own/effect", "accepted-without-effect", f"{what}: no node for {path} after the accepted request", "accepted-no-effect")
                return
            if snap.nodes[i][3]:
                if not snap.nodes[did][3]:
                    self.violate("R-own/effect", "accepted-without-effect", f"{what}: {path} is detached after the accepted request", "accepted-no-effect")
                return
            if ROLE[snap.files[i][0]] not in roles:
                self.violate("R-own/effect", "accepted-other-role", f"{what}: {path} has role {ROLE[snap.files[i][0]]} after the accepted request", "accepted-other-role")
            elif creator is not None and not owner_ok(i, creator):
                self.violate("R-own/effect", "accepted-other-owner",
                             f"{what}: {path} is owned by {snap.key(snap.nodes[i][2])}, not by the declarer {snap.key(creator)}", "accepted-other-owner")

        if call.name == "declare_static":
            _, tree_paths, file_paths, patterns = call.args[:4]
            for t in tree_paths:
                label = str(t).rstrip("/") + "/"
                cover = [i for i, (k, lab, c, det) in snap.nodes.items() if k == "st" and not det and label.startswith(lab)]
                if not cover:
                    self.violate("R-own/effect", "accepted-without-effect", f"static tree {label} accepted but no attached tree covers it", "accepted-no-effect")
                elif not any(snap.nodes[i][2] == did for i in cover):
                    self.violate("R-own/effect", "accepted-other-owner", f"static tree {label} accepted for {snap.key(did)} but is covered by another creator's tree", "accepted-other-owner")
            for f in file_paths:
                check_file(f, ("STATIC",), did, f"static({f})")
        elif call.name == "define_step":
            from stepup.core.step import Step

            _, command, inp, env, out, vol, workdir = call.args[:7]
            try:
                label = Step.adjust_label(command, workdir=_norm_wd(workdir))
            except Exception:  # noqa: BLE001
                return
            sid = by_label.get(("step", label))
            if sid is None:
                self.violate("R-own/effect", "accepted-without-effect", f"step {label} accepted but absent", "accepted-no-effect")
                return
            if snap.nodes[sid][2] != did:
                self.violate("R-own/effect", "accepted-other-owner", f"step {label} accepted for {snap.key(did)} but created by {snap.key(snap.nodes[sid][2])}", "accepted-other-owner")
            for o in out:
                check_file(o, ("OUTPUT",), sid, f"out of {label}")
            for v in vol:
                check_file(v, ("VOLATILE",), sid, f"vol of {label}")
        elif call.name == "amend_step":
            _, inp, env, out, vol = call.args[:5]
            for o in out:
                check_file(o, ("OUTPUT",), did, f"amended out of {snap.key(did)}")
            for v in vol:
                check_file(v, ("VOLATILE",), did, f"amended vol of {snap.key(did)}")


class AtomicityMonitor(Monitor):
    """C15: a rejected request leaves no trace; one transaction per mutating request."""

    name = "atomicity"
    ONE_TXN = ("declare_static", "define_step", "register_glob", "hold_dispatch", "release_dispatch")

    def on_request_done(self, world, call, ok, result, txns):
        self.count("requests")
        name = call.name
        if not ok:
            self.count("rejected")
            for kind, before, after in txns:
                if kind == "commit":
                    # a failing request committed something
                    if name == "amend_step" and txns[-1][0] != "rollback":
                        continue
                    if name == "amend_step" and "injected fault" in str(getattr(result, "message", "")):
                        # amend_step is multi-stage by design (amendment, promoted hash jobs,
                        # availability re-check); the injected statement error hit the last,
                        # read-only stage: an I/O error, not a rejection of the request
                        world.count("probe.io_error_after_committed_amendment")
                        continue
                    self.violate("R-atomic/partial", "rejected-but-committed",
                                 f"{name} failed ({getattr(result, 'qualname', '?')}: {getattr(result, 'message', '')[:200]}) after committing a transaction",
                                 "rejected-but-committed")
                else:
                    same, why = snapshots_equal(before, after)
                    self.count("rollbacks_compared")
                    if not same:
                        self.violate("R-atomic/rollback", "rejected-left-trace",
                                     f"{name} was rejected ({getattr(result, 'qualname', '?')}) but the stored workflow changed: {why}",
                                     "rejected-left-trace")
        else:
            ncommit = sum(1 for k, _, _ in txns if k == "commit")
            if name in self.ONE_TXN and ncommit != 1:
                self.violate("R-atomic/one-txn", "not-one-transaction",
                             f"{name} succeeded with {ncommit} committed transactions", "not-one-transaction")
