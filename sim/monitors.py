"""Monitors evaluated at every commit of a simulated director."""

from stepup.core.enums import FileState, Need, StepState

__all__ = ("Monitor", "StaleChildMonitor")

PENDING = StepState.PENDING.value
RUNNING = StepState.RUNNING.value
CHECKING = StepState.CHECKING.value
SUCCEEDED = StepState.SUCCEEDED.value
FAILED = StepState.FAILED.value


class Monitor:
    name = "monitor"

    def __init__(self):
        self.violations = []  # (oracle, cls, message, key)
        self.counters = {}

    def count(self, key, n=1):
        self.counters[key] = self.counters.get(key, 0) + n

    def violate(self, oracle, cls, message, key=None):
        if len(self.violations) < 20:
            self.violations.append((oracle, cls, message, key or cls))

    def on_build_start(self, world):
        pass

    def on_commit(self, world, prev, snap, info):
        pass

    def on_rollback(self, world, info, exc):
        pass

    def on_rpc_failure(self, world, rid, call, failure):
        pass

    def on_build_end(self, world, result):
        pass


def step_state(snap, i):
    row = snap.steps.get(i)
    return None if row is None else row[1]


def descendants_steps(snap, root):
    """Attached step descendants of `root` over creator links."""
    children = {}
    for i, (kind, label, creator, detached) in snap.nodes.items():
        if creator is not None and creator != i and not detached:
            children.setdefault(creator, []).append(i)
    out = set()
    todo = [root]
    while todo:
        c = todo.pop()
        for ch in children.get(c, ()):
            if ch not in out:
                if snap.nodes[ch][0] == "step":
                    out.add(ch)
                todo.append(ch)
    return out


class StaleChildMonitor(Monitor):
    """Detects a command started for a step that its re-running creator is about to drop.

    When a plan step is dispatched it becomes RUNNING in the dispatch commit, while
    `reset_for_rerun` (which detaches everything the plan created in its previous run) is a
    later commit.  In between, the old children count as "created by a running step".
    """

    name = "stale_child"

    def __init__(self):
        super().__init__()
        self.stale = {}
        self.hits = []

    def on_commit(self, world, prev, snap, info):
        if prev is None:
            self.stale = {}
            return
        newly = []
        for i, row in snap.steps.items():
            st = row[1]
            prow = prev.steps.get(i)
            pst = prow[1] if prow is not None else None
            if st == RUNNING and pst != RUNNING:
                newly.append(i)
            elif st != RUNNING and i in self.stale:
                del self.stale[i]
        for c in list(self.stale):
            ids = self.stale[c]
            keep = set()
            for j in ids:
                n = snap.nodes.get(j)
                if n is not None and not n[3]:
                    keep.add(j)
            self.stale[c] = keep
        # dispatches in this commit
        for i in newly:
            for c, ids in self.stale.items():
                if i in ids:
                    label = snap.nodes[i][1]
                    self.hits.append((snap.nodes[c][1], label))
                    world.count("probe.stale_child_command")
                    world.log_event("stale_child", snap.nodes[c][1], label)
        for i in newly:
            self.stale[i] = descendants_steps(snap, i)
