"""Seeded search driver: parallel workers, known findings, minimisation, replay, evidence."""

import argparse
import collections
import concurrent.futures
import faulthandler
import hashlib
import json
import multiprocessing
import os
import re
import shutil
import subprocess
import sys
import time
import traceback

from .chooser import derive_seed

VERIF = os.path.dirname(os.path.dirname(os.path.abspath(__file__)))
KNOWN_FILE = os.path.join(VERIF, "known_findings.json")
REPLAY_DIR = os.path.join(VERIF, "replays")
EVIDENCE_DIR = os.environ.get("VERIF_EVIDENCE_DIR") or os.path.join(VERIF, "evidence")

COMPONENTS = {
    "real": [
        "director.serve/_wire_director/_run_tasks/build_loop/DirectorHandler",
        "builder, scheduler, job, hash_queue, finalize, pending",
        "executor (all but launch_command)",
        "trellis, workflow, step, file, static_tree on a real SQLite WAL file",
        "sqlite3.DBSession (lock, BEGIN IMMEDIATE, commit/rollback, apply_schema, reclaim_loop)",
        "startup.resume_from_db",
        "watcher.Watcher, AsyncInotifyWrapper loops",
        "hash.FileHash.refreshed / compute_*_hashes on real files (tmpfs)",
        "rpc: SocketRPCServer, RPCServerConnection, framing, SocketSyncRPCClient, SocketAsyncRPCClient",
        "api: static, glob, step, run, plan, amend, hold, getenv, get_info; path translation; nglob",
        "clean.clean()",
    ],
    "stub": [
        "OS step processes -> baton-passed threads interpreting step programs (executor.launch_command)",
        "hash threads -> in-loop execution after a simulated delay (run.ThreadWorker.run_in_thread)",
        "Unix sockets -> in-memory byte pipes with seeded fragmentation/latency",
        "kernel inotify -> FakeInotify fed by SimFS",
        "clocks -> virtual loop time (asyncio, scheduler.time, Job.duration)",
        "reporter/TUI -> RecordingReporter",
        "signals, cgroups, forkserver, rich TUI: not run",
    ],
}


class Result:
    """What one scenario run reports back."""

    def __init__(self):
        self.violations = []  # dicts: oracle, cls, message, key
        self.builds = 0
        self.vtime = 0.0
        self.commits = 0
        self.signature = None
        self.nontrivial = False
        self.stats = collections.Counter()
        self.fingerprint = ""
        self.sample = None
        self.discard = None  # reason string when the scenario is not judged
        self.interleavings = set()
        self.states = set()

    def violate(self, oracle, cls, message, key=None):
        self.violations.append(
            {"oracle": oracle, "cls": cls, "message": str(message)[:2000], "key": key or cls}
        )


def load_known():
    if not os.path.exists(KNOWN_FILE):
        return []
    with open(KNOWN_FILE) as fh:
        return json.load(fh).get("findings", [])


def match_known(prop, violation, known):
    for k in known:
        if k.get("status") != "known" or k.get("property") != prop:
            continue
        if k.get("oracle") and k["oracle"] != violation["oracle"]:
            continue
        pat = k.get("key_regex")
        if pat and not re.search(pat, violation["key"]):
            continue
        mpat = k.get("message_regex")
        if mpat and not re.search(mpat, violation["message"], re.S):
            continue
        return k
    return None


def git_rev(path):
    try:
        rev = subprocess.run(
            ["git", "-C", path, "rev-parse", "--short", "HEAD"],
            capture_output=True,
            text=True,
            timeout=20,
        ).stdout.strip()
        dirty = subprocess.run(
            ["git", "-C", path, "status", "--porcelain", "--untracked-files=no"],
            capture_output=True,
            text=True,
            timeout=20,
        ).stdout.strip()
        return rev + ("+dirty" if dirty else "")
    except Exception:  # noqa: BLE001
        return "unknown"


# ---------------------------------------------------------------------------------------------
# worker
# ---------------------------------------------------------------------------------------------


def _worker_entry(args, conn, progress_path):
    try:
        agg = _worker(args, progress_path)
        conn.send(agg)
    except BaseException as exc:  # noqa: BLE001
        try:
            conn.send({"fatal": repr(exc), "trace": traceback.format_exc()[-3000:]})
        except Exception:  # noqa: BLE001
            pass
    finally:
        conn.close()


def _worker(args, progress_path=None):
    (modname, base_seed, widx, deadline, tier, per_scenario_limit, opts) = args
    import importlib
    import logging
    import warnings

    warnings.simplefilter("ignore")
    logging.getLogger("asyncio").setLevel(logging.CRITICAL)
    logging.getLogger("stepup").setLevel(logging.ERROR)
    logging.getLogger("stepup").propagate = False
    mod = importlib.import_module(modname)
    known = load_known()
    agg = {
        "evaluations": 0,
        "scenarios": 0,
        "discarded": collections.Counter(),
        "stats": collections.Counter(),
        "signatures": set(),
        "nontrivial_signatures": set(),
        "vtime": 0.0,
        "commits": 0,
        "samples": [],
        "known_hits": collections.Counter(),
        "violation": None,
        "harness_errors": [],
        "interleavings": set(),
        "states": set(),
        "seeds": [],
    }
    i = 0
    from .universe import scratch_base

    while time.time() < deadline:
        seed = derive_seed(base_seed, mod.PROPERTY, widx, i)
        i += 1
        if progress_path is not None:
            with open(progress_path, "w") as fh:
                fh.write(str(seed))
        faulthandler.dump_traceback_later(per_scenario_limit, exit=True)
        try:
            scenario = mod.gen_scenario(seed, tier, opts)
            res = mod.run_scenario(scenario)
        except Exception as exc:  # noqa: BLE001
            agg["harness_errors"].append(
                {"seed": seed, "error": repr(exc), "trace": traceback.format_exc()[-3000:]}
            )
            if len(agg["harness_errors"]) >= 3:
                break
            continue
        finally:
            faulthandler.cancel_dump_traceback_later()
            shutil.rmtree(scratch_base(), ignore_errors=True)
        agg["scenarios"] += 1
        agg["evaluations"] += res.builds
        agg["vtime"] += res.vtime
        agg["commits"] += res.commits
        agg["stats"].update(res.stats)
        if len(agg["seeds"]) < 5:
            agg["seeds"].append(seed)
        if res.discard:
            agg["discarded"][res.discard] += 1
        if res.signature is not None:
            agg["signatures"].add(res.signature)
            if res.nontrivial:
                agg["nontrivial_signatures"].add(res.signature)
        if len(agg["interleavings"]) < 200000:
            agg["interleavings"].update(res.interleavings)
        if len(agg["states"]) < 200000:
            agg["states"].update(res.states)
        if res.sample is not None and len(agg["samples"]) < 2:
            agg["samples"].append(res.sample)
        new = None
        for v in res.violations:
            k = match_known(mod.PROPERTY, v, known)
            if k is not None:
                agg["known_hits"][k["id"]] += 1
            elif new is None:
                new = v
        if new is not None:
            agg["violation"] = {"seed": seed, "scenario": scenario, "violation": new}
            break
    agg["signatures"] = sorted(agg["signatures"])
    agg["nontrivial_signatures"] = sorted(agg["nontrivial_signatures"])
    agg["interleavings"] = sorted(agg["interleavings"])
    agg["states"] = sorted(agg["states"])
    return agg


# ---------------------------------------------------------------------------------------------
# minimisation and replay
# ---------------------------------------------------------------------------------------------


def same_violation(res, target):
    for v in res.violations:
        if v["oracle"] == target["oracle"] and v["key"] == target["key"]:
            return v
    return None


def minimise(mod, scenario, target, budget_s=150.0, max_runs=250):
    from .universe import scratch_base

    if not hasattr(mod, "shrink"):
        return scenario, 0
    t_end = time.time() + budget_s
    runs = 0
    cur = scenario
    progress = True
    while progress and time.time() < t_end and runs < max_runs:
        progress = False
        for cand in mod.shrink(cur):
            if time.time() >= t_end or runs >= max_runs:
                break
            runs += 1
            try:
                res = mod.run_scenario(cand)
            except Exception:  # noqa: BLE001
                continue
            finally:
                shutil.rmtree(scratch_base(), ignore_errors=True)
            if same_violation(res, target) is not None:
                cur = cand
                progress = True
                break
    return cur, runs


def write_replay(mod, seed, scenario, violation, minimised_runs, fingerprint):
    os.makedirs(REPLAY_DIR, exist_ok=True)
    path = os.path.join(REPLAY_DIR, f"{mod.PROPERTY}-{seed}.json")
    doc = {
        "property": mod.PROPERTY,
        "oracle": violation["oracle"],
        "class": violation["cls"],
        "key": violation["key"],
        "message": violation["message"],
        "seed": seed,
        "scenario": scenario,
        "fingerprint": fingerprint,
        "minimisation_runs": minimised_runs,
        "repo_rev": git_rev("/repo"),
        "verif_rev": git_rev(VERIF),
    }
    with open(path, "w") as fh:
        json.dump(doc, fh, indent=1, sort_keys=True, default=str)
    return path


def do_replay(mod, path):
    from .universe import scratch_base

    with open(path) as fh:
        doc = json.load(fh)
    try:
        res = mod.run_scenario(doc["scenario"])
    finally:
        shutil.rmtree(scratch_base(), ignore_errors=True)
    target = {"oracle": doc["oracle"], "key": doc["key"]}
    v = same_violation(res, target)
    if v is None:
        print(f"NOT-REPRODUCED property={doc['property']} replay={path}")
        for w in res.violations[:5]:
            print("  other:", w["oracle"], w["key"], w["message"][:200])
        return 2
    if doc.get("fingerprint") and res.fingerprint != doc["fingerprint"]:
        print(
            f"NOT-REPRODUCED (fingerprint differs: {res.fingerprint} != {doc['fingerprint']}) "
            f"property={doc['property']} replay={path}"
        )
        return 2
    known = match_known(doc["property"], v, load_known())
    if known is not None:
        print(f"KNOWN-FINDING: property={doc['property']} {known['what']}")
        return 0
    print(f"  {v['oracle']} [{v['key']}]: {v['message'][:1500]}")
    print(f"VIOLATION property={doc['property']} replay={path}")
    return 1


# ---------------------------------------------------------------------------------------------
# main driver
# ---------------------------------------------------------------------------------------------

TIER_BUDGET = {"quick": 55.0, "thorough": 780.0}


def _remove_stale_scratch():
    """Scratch trees of workers that were killed (watchdog, timeout) stay behind in /dev/shm."""
    try:
        names = os.listdir("/dev/shm")
    except OSError:
        return
    for name in names:
        if not name.startswith("verif-"):
            continue
        pid = name[6:]
        if not pid.isdigit():
            continue
        path = os.path.join("/dev/shm", name)
        try:
            if time.time() - os.stat(path).st_mtime < 3600:
                continue  # young: may belong to a run that this process cannot see
            os.kill(int(pid), 0)
        except ProcessLookupError:
            shutil.rmtree(path, ignore_errors=True)
        except OSError:
            pass


def run_check(mod, tier="quick", seed=None, budget=None, workers=None, opts=None):
    t0 = time.time()
    if seed is None:
        seed = int(os.environ.get("VERIF_SEED", "0") or 0)
    if budget is None:
        budget = float(os.environ.get("VERIF_BUDGET_S", "0") or 0) or TIER_BUDGET[tier]
    if workers is None:
        workers = int(os.environ.get("VERIF_WORKERS", "0") or 0) or min(16, os.cpu_count() or 1)
    opts = opts or {}
    deadline = t0 + budget
    per_scenario_limit = float(opts.get("scenario_wall_limit", 120.0))
    print(f"check {mod.PROPERTY} tier={tier} VERIF_SEED={seed} budget={budget:.0f}s workers={workers}")
    sys.stdout.flush()
    _remove_stale_scratch()
    ctx = multiprocessing.get_context("fork")
    jobs = [
        (mod.__name__, seed, w, deadline, tier, per_scenario_limit, opts) for w in range(workers)
    ]
    aggs = []
    harness_failures = []
    procs = []
    pdir = f"/dev/shm/verif-progress-{os.getpid()}"
    os.makedirs(pdir, exist_ok=True)
    for w, job in enumerate(jobs):
        parent_conn, child_conn = ctx.Pipe(duplex=False)
        ppath = os.path.join(pdir, f"w{w}")
        p = ctx.Process(target=_worker_entry, args=(job, child_conn, ppath), daemon=True)
        p.start()
        child_conn.close()
        procs.append((p, parent_conn, ppath))
    hard_deadline = deadline + per_scenario_limit + 60
    for p, conn, ppath in procs:
        got = None
        try:
            while time.time() < hard_deadline:
                if conn.poll(0.2):
                    got = conn.recv()
                    break
                if not p.is_alive() and not conn.poll(0.05):
                    break
        except (EOFError, OSError):
            got = None
        if got is None:
            cur = "?"
            try:
                with open(ppath) as fh:
                    cur = fh.read().strip()
            except OSError:
                pass
            harness_failures.append(
                f"worker died or timed out (exitcode={p.exitcode}) while running scenario seed {cur}"
            )
            if p.is_alive():
                p.kill()
        elif "fatal" in got:
            harness_failures.append({"seed": "?", "error": got["fatal"], "trace": got["trace"]})
        else:
            aggs.append(got)
        p.join(timeout=5)
    shutil.rmtree(pdir, ignore_errors=True)
    total = {
        "evaluations": 0,
        "scenarios": 0,
        "vtime": 0.0,
        "commits": 0,
        "stats": collections.Counter(),
        "discarded": collections.Counter(),
        "known_hits": collections.Counter(),
        "signatures": set(),
        "nontrivial": set(),
        "samples": [],
        "interleavings": set(),
        "states": set(),
        "seeds": [],
    }
    violation = None
    for a in aggs:
        total["evaluations"] += a["evaluations"]
        total["scenarios"] += a["scenarios"]
        total["vtime"] += a["vtime"]
        total["commits"] += a["commits"]
        total["stats"].update(a["stats"])
        total["discarded"].update(a["discarded"])
        total["known_hits"].update(a["known_hits"])
        total["signatures"].update(a["signatures"])
        total["nontrivial"].update(a["nontrivial_signatures"])
        total["interleavings"].update(a["interleavings"])
        total["states"].update(a["states"])
        total["samples"].extend(a["samples"][:1])
        total["seeds"].extend(a["seeds"][:2])
        for he in a["harness_errors"]:
            harness_failures.append(he)
        if a["violation"] is not None and violation is None:
            violation = a["violation"]

    known = load_known()
    rc = 0
    replay_path = None
    if violation is not None:
        target = violation["violation"]
        print(f"violation found at seed {violation['seed']}: {target['oracle']} [{target['key']}]")
        print("  " + target["message"][:1500].replace("\n", "\n  "))
        sys.stdout.flush()
        small, nruns = minimise(mod, violation["scenario"], target)
        from .universe import scratch_base

        try:
            res = mod.run_scenario(small)
        finally:
            shutil.rmtree(scratch_base(), ignore_errors=True)
        v = same_violation(res, target) or target
        replay_path = write_replay(mod, violation["seed"], small, v, nruns, res.fingerprint)
        rc = 1
    wall = time.time() - t0
    evidence = {
        "property_id": mod.PROPERTY,
        "tier": tier,
        "seed": seed,
        "level": "exploration",
        "coverage": {
            "evaluations": int(total["evaluations"]),
            "distinct_nontrivial": len(total["nontrivial"]),
            "rule": getattr(mod, "RULE", ""),
            "samples": total["samples"][:4] or [{"note": "no sample recorded"}],
            "scenarios": total["scenarios"],
            "distinct_scenarios": len(total["signatures"]),
            "discarded": dict(total["discarded"]),
            "simulated_seconds": round(total["vtime"], 1),
            "commits_observed": total["commits"],
            "runs_per_hour": round(total["evaluations"] / max(wall, 1e-9) * 3600),
            "scenarios_per_hour": round(total["scenarios"] / max(wall, 1e-9) * 3600),
            "faults_fired": {
                k[6:]: v for k, v in sorted(total["stats"].items()) if k.startswith("fault.")
            },
            "probes": {
                k[6:]: v for k, v in sorted(total["stats"].items()) if k.startswith("probe.")
            },
            "other_stats": {
                k: v
                for k, v in sorted(total["stats"].items())
                if not k.startswith(("fault.", "probe."))
            },
            "distinct_interleavings": len(total["interleavings"]),
            "distinct_states": len(total["states"]),
            "known_findings_seen": dict(total["known_hits"]),
            "harness_errors": len(harness_failures),
            "first_seeds": total["seeds"][:8],
            "components": COMPONENTS,
            "workers": workers,
        },
        "assumptions": getattr(mod, "ASSUMPTIONS", []),
        "wall_s": round(wall, 2),
        "violations": 1 if rc == 1 else 0,
    }
    os.makedirs(EVIDENCE_DIR, exist_ok=True)
    with open(os.path.join(EVIDENCE_DIR, f"{mod.PROPERTY}.json"), "w") as fh:
        json.dump(evidence, fh, indent=1, sort_keys=True, default=str)
    print(
        f"{mod.PROPERTY}: {total['scenarios']} scenarios, {total['evaluations']} builds, "
        f"{len(total['nontrivial'])} distinct non-trivial, {total['vtime']:.0f} simulated s, "
        f"wall {wall:.1f}s"
    )
    # one line per listed finding of this property, whether or not this run met it
    for k in known:
        if k.get("status") != "known" or k.get("property") != mod.PROPERTY:
            continue
        n = total["known_hits"].get(k["id"], 0)
        print(f"KNOWN-FINDING: property={mod.PROPERTY} [{k['id']}] {k['what']} (seen {n}x in this run)")
    if harness_failures:
        print(f"HARNESS: {len(harness_failures)} harness error(s)")
        for he in harness_failures[:3]:
            if isinstance(he, dict):
                print("  seed", he["seed"], he["error"])
                print("  " + he["trace"][-1500:].replace("\n", "\n  "))
            else:
                print("  ", he)
        if rc == 0:
            rc = 3
    if rc == 1:
        print(f"VIOLATION property={mod.PROPERTY} replay={replay_path}")
    elif rc == 0 and total["scenarios"] == 0:
        print("HARNESS: nothing was explored")
        rc = 3
    return rc


def main(argv=None):
    ap = argparse.ArgumentParser()
    ap.add_argument("check")
    ap.add_argument("--tier", default=os.environ.get("VERIF_TIER", "quick"))
    ap.add_argument("--seed", type=int, default=None)
    ap.add_argument("--budget", type=float, default=None)
    ap.add_argument("--workers", type=int, default=None)
    ap.add_argument("--replay", default=None)
    ap.add_argument("--one", type=int, default=None, help="run one scenario seed in-process")
    ap.add_argument("--opt", action="append", default=[])
    args = ap.parse_args(argv)
    if args.tier not in ("quick", "thorough"):
        args.tier = "quick"
    import importlib

    name = args.check.lower()
    if name.startswith("selftest"):
        from checks import selftest

        mods = [o for o in args.opt] or ["checks.c01"]
        return selftest.main([",".join(mods), str(int(args.budget or 96))])
    mod = importlib.import_module(f"checks.{name}")
    opts = {}
    for o in args.opt:
        k, _, v = o.partition("=")
        opts[k] = v
    if args.replay:
        return do_replay(mod, args.replay)
    if args.one is not None:
        from .universe import scratch_base

        sc = mod.gen_scenario(args.one, args.tier, opts)
        try:
            res = mod.run_scenario(sc)
        finally:
            shutil.rmtree(scratch_base(), ignore_errors=True)
        print("signature", res.signature, "builds", res.builds, "discard", res.discard)
        print("fingerprint", res.fingerprint)
        print("stats", dict(res.stats))
        for v in res.violations:
            print("VIOL", v["oracle"], v["key"], v["message"][:1500])
        return 1 if res.violations else 0
    return run_check(mod, tier=args.tier, seed=args.seed, budget=args.budget, workers=args.workers, opts=opts)
