"""Structural minimisation of history scenarios (candidates, simplest first)."""

import copy

from . import gen

__all__ = ("shrink_history",)


def _all_step_names(sc):
    names = []
    for ph in sc["phases"]:
        for st in ph["project"]["steps"]:
            if st["name"] not in names:
                names.append(st["name"])
    return names


def _all_plan_names(sc):
    names = []
    for ph in sc["phases"]:
        for p in ph["project"]["plans"]:
            if p["name"] != "P0" and p["name"] not in names:
                names.append(p["name"])
    return names


def _all_sources(sc):
    names = []
    for ph in sc["phases"]:
        for s in ph["project"]["sources"]:
            if s not in names:
                names.append(s)
    return names


def _drop_step_everywhere(sc, name):
    out = copy.deepcopy(sc)
    for ph in out["phases"]:
        gen.drop_steps(ph["project"], [name], cascade=False)
        _norm(ph["project"])
    return out


def _norm(proj):
    import random

    gen._assign_statics(random.Random(0), proj)


def _drop_plan_everywhere(sc, name):
    out = copy.deepcopy(sc)
    for ph in out["phases"]:
        proj = ph["project"]
        if not any(p["name"] == name for p in proj["plans"]):
            continue
        parent = next(p["parent"] for p in proj["plans"] if p["name"] == name)
        proj["plans"] = [p for p in proj["plans"] if p["name"] != name]
        for p in proj["plans"]:
            if p["parent"] == name:
                p["parent"] = parent
        for st in proj["steps"]:
            if st["plan"] == name:
                st["plan"] = parent
        for d in (proj["statics"], proj["trees"]):
            for k, owner in list(d.items()):
                if owner == name:
                    d[k] = parent
        for g in proj["globs"]:
            if g["plan"] == name:
                g["plan"] = parent
        _norm(proj)
    return out


def _drop_source_everywhere(sc, src):
    out = copy.deepcopy(sc)
    for ph in out["phases"]:
        proj = ph["project"]
        if src not in proj["sources"]:
            continue
        users = gen.consumers_of(proj, [src])
        if users:
            return None
        del proj["sources"][src]
        proj["statics"].pop(src, None)
        _norm(proj)
    return out


def shrink_history(sc):
    """Yield smaller variants of a history scenario."""
    n = len(sc["phases"])
    # calm schedule
    if sc["schedule"].get("mode") != "calm":
        out = copy.deepcopy(sc)
        out["schedule"] = {"mode": "calm", "seed": 0}
        yield out
    # drop phases (never the first one, which creates the database)
    for k in range(n - 1, 0, -1):
        if n <= 2 and k == n - 1 and False:
            continue
        out = copy.deepcopy(sc)
        del out["phases"][k]
        if len(out["phases"]) >= 1:
            yield out
    # merge: make phase k's project equal to the previous one (removes its edits)
    for k in range(1, n - 1):
        out = copy.deepcopy(sc)
        out["phases"][k]["project"] = copy.deepcopy(out["phases"][k - 1]["project"])
        yield out
    # simple configs
    for k in range(n):
        cfg = sc["phases"][k]["cfg"]
        keep = {"njob": 1}
        if "available_resources" in cfg:
            keep["available_resources"] = cfg["available_resources"]
        if cfg != keep:
            out = copy.deepcopy(sc)
            out["phases"][k]["cfg"] = dict(keep)
            yield out
    # drop steps, plans, sources everywhere
    for name in reversed(_all_step_names(sc)):
        yield _drop_step_everywhere(sc, name)
    for name in reversed(_all_plan_names(sc)):
        yield _drop_plan_everywhere(sc, name)
    for src in reversed(_all_sources(sc)):
        cand = _drop_source_everywhere(sc, src)
        if cand is not None:
            yield cand
    # drop globs, trees, holds, env
    for k in range(n):
        proj = sc["phases"][k]["project"]
        if proj["globs"]:
            out = copy.deepcopy(sc)
            for ph in out["phases"]:
                ph["project"]["globs"] = []
                _norm(ph["project"])
            yield out
            break
    if any(p.get("hold") for ph in sc["phases"] for p in ph["project"]["plans"]):
        out = copy.deepcopy(sc)
        for ph in out["phases"]:
            for p in ph["project"]["plans"]:
                p["hold"] = False
        yield out
    # simplify steps: remove sleeps, make non-optional, drop single acts
    for name in _all_step_names(sc):
        for what in ("nosleep", "nonoptional", "noresources", "noscript"):
            out = copy.deepcopy(sc)
            changed = False
            for ph in out["phases"]:
                for st in ph["project"]["steps"]:
                    if st["name"] != name:
                        continue
                    if what == "nosleep" and any(a[0] == "sleep" for a in st["acts"]):
                        # keep distinct command texts: only applies to scripts
                        if st["script"]:
                            st["acts"] = [a for a in st["acts"] if a[0] != "sleep"]
                            changed = True
                    elif what == "nonoptional" and st["optional"]:
                        st["optional"] = False
                        changed = True
                    elif what == "noresources" and st["resources"]:
                        st["resources"] = {}
                        changed = True
            if changed:
                yield out
