"""In-memory replacement for Unix stream sockets.

A connection is a pair of `End`s.  Bytes written on one end are cut into chunks and delivered
in order to the other end after seeded latencies.  A Unix stream socket neither loses,
duplicates nor reorders, so neither does this.  Faults: close/abort at a chosen moment,
garbage, stalled reader.
"""

import asyncio
import collections

__all__ = ("SimNet", "FakeSocket", "SimSocketModule")

HIGH_WATER = 64 * 1024
LOW_WATER = 16 * 1024


class End:
    """One end of a duplex in-memory byte pipe."""

    def __init__(self, net, conn_id, side):
        self.net = net
        self.loop = net.loop
        self.conn_id = conn_id
        self.side = side  # "c" (client) or "s" (server)
        self.peer: "End | None" = None
        self.owner = None  # object with on_data / on_eof / on_writable
        self.closed = False  # this end will not send any more
        self.dead = False  # this end was fully torn down (no reading either)
        self.eof_sent = False
        self.pending = collections.deque()  # scheduled deliveries (handles)
        self.inflight = 0  # bytes sent, not yet handed to the peer's owner
        self.next_time = 0.0
        self.backlog = collections.deque()  # items delivered while owner absent / paused
        self.paused = False  # owner does not want data now
        self.stalled = False  # fault: this end never reads
        self.nsent = 0  # bytes sent so far on this end
        self.nmsg = 0  # writes so far

    # -- sending ---------------------------------------------------------------------
    def send(self, data: bytes):
        if self.closed or self.dead:
            return
        ch = self.net.chooser
        self.nmsg += 1
        n = len(data)
        cuts = []
        mode = ch.draw("net.split_mode", 0, 9)
        if n > 1 and mode >= 7:
            k = ch.draw("net.nsplit", 1, 3)
            cuts = sorted({ch.draw("net.cut", 1, n - 1) for _ in range(k)})
        elif n > 1 and mode == 6:
            # byte-wise for the first few bytes (header region), rest whole
            m = min(n - 1, ch.draw("net.bytewise", 1, 20))
            cuts = list(range(1, m + 1))
        pieces = []
        prev = 0
        for c in cuts:
            pieces.append(data[prev:c])
            prev = c
        pieces.append(data[prev:])
        now = self.loop.time()
        t = max(now, self.next_time)
        for piece in pieces:
            t += ch.delay("net.latency", 0, self.net.max_latency_ms)
            self.inflight += len(piece)
            self.nsent += len(piece)
            h = self.loop.call_at(t, self._deliver, piece)
            self.pending.append(h)
        self.next_time = t
        self.net.stats["chunks"] += len(pieces)
        self.net.stats["writes"] += 1
        if len(pieces) > 1:
            self.net.stats["fragmented_writes"] += 1

    def _deliver(self, piece):
        if self.pending:
            self.pending.popleft()
        peer = self.peer
        self.inflight -= len(piece)
        if peer.dead:
            # reader is gone: data vanishes
            self._check_writable()
            return
        peer._incoming(("data", piece))
        self._check_writable()

    def _check_writable(self):
        if self.owner is not None and hasattr(self.owner, "on_writable"):
            self.owner.on_writable()

    def _incoming(self, item):
        if self.owner is None or self.paused or self.stalled or self.backlog:
            self.backlog.append(item)
            if self.owner is not None and not self.paused and not self.stalled:
                self.flush_backlog()
            return
        self._hand_over(item)

    def _hand_over(self, item):
        kind, payload = item
        if kind == "data":
            self.owner.on_data(payload)
        else:
            self.owner.on_eof()

    def flush_backlog(self):
        drained = False
        while self.backlog and not self.paused and not self.stalled and self.owner is not None:
            self._hand_over(self.backlog.popleft())
            drained = True
        if drained and self.peer is not None:
            # the writer's "buffer" (bytes this end had not consumed yet) shrank
            self.peer._check_writable()

    def backlog_bytes(self):
        return sum(len(p) for k, p in self.backlog if k == "data")

    # -- closing -----------------------------------------------------------------------
    def close(self):
        """Graceful: everything sent so far arrives, then EOF."""
        if self.closed:
            return
        self.closed = True
        t = max(self.loop.time(), self.next_time)
        t += self.net.chooser.delay("net.latency", 0, self.net.max_latency_ms)
        self.next_time = t
        self.loop.call_at(t, self._deliver_eof)

    def abort(self):
        """Drop what was not delivered yet, then EOF."""
        if self.closed and self.eof_sent:
            return
        self.closed = True
        while self.pending:
            self.pending.popleft().cancel()
        self.inflight = 0
        self.loop.call_soon(self._deliver_eof)

    def _deliver_eof(self):
        if self.eof_sent:
            return
        self.eof_sent = True
        if not self.peer.dead:
            self.peer._incoming(("eof", None))

    def kill(self):
        """Tear down this end completely: no more sending and no more reading."""
        self.dead = True
        self.backlog.clear()
        self.abort()
        if self.peer is not None:
            self.peer._check_writable()


class SimTransport(asyncio.Transport):
    """asyncio transport over an `End`."""

    def __init__(self, loop, end, protocol, server=None):
        super().__init__(extra={"peername": f"sim:{end.conn_id}", "sockname": "sim"})
        self._loop = loop
        self._end = end
        self._protocol = protocol
        self._server = server
        self._closing = False
        self._conn_lost = False
        self._lost_scheduled = False
        self._protocol_paused = False
        end.owner = self

    # reading side -------------------------------------------------------------------------
    def on_data(self, data):
        if self._conn_lost:
            return
        self._protocol.data_received(data)

    def on_eof(self):
        if self._conn_lost or self._closing:
            return
        keep_open = self._protocol.eof_received()
        if not keep_open:
            self.close()

    def is_reading(self):
        return not self._end.paused and not self._closing

    def pause_reading(self):
        self._end.paused = True

    def resume_reading(self):
        self._end.paused = False
        # Never hand data over synchronously: a real transport only re-arms the reader here
        # and the data arrives in a later loop iteration.  StreamReader._wait_for_data()
        # resumes the transport *before* it creates its waiter, so a synchronous feed_data()
        # would find no waiter to wake and the reader would sleep on a full buffer.
        self._loop.call_soon(self._end.flush_backlog)

    # writing side -------------------------------------------------------------------------
    def write(self, data):
        if self._conn_lost or self._closing:
            return
        if not data:
            return
        peer = self._end.peer
        if peer.dead:
            self._fatal(BrokenPipeError(32, "Broken pipe"))
            return
        self._end.send(bytes(data))
        self._maybe_pause()

    def _maybe_pause(self):
        size = self.get_write_buffer_size()
        if size > HIGH_WATER and not self._protocol_paused:
            self._protocol_paused = True
            self._protocol.pause_writing()

    def on_writable(self):
        if self._protocol_paused and self._end.peer.dead and not self._closing:
            # like EPIPE on the flush of a kernel buffer whose reader went away
            self._fatal(BrokenPipeError(32, "Broken pipe"))
            return
        if self._protocol_paused and self.get_write_buffer_size() <= LOW_WATER:
            self._protocol_paused = False
            if not self._conn_lost:
                self._protocol.resume_writing()

    def get_write_buffer_size(self):
        # Bytes not yet consumed by the peer application count as "buffered".
        return self._end.inflight + self._end.peer.backlog_bytes()

    def get_write_buffer_limits(self):
        return (LOW_WATER, HIGH_WATER)

    def set_write_buffer_limits(self, high=None, low=None):
        pass

    def can_write_eof(self):
        return True

    def write_eof(self):
        self._end.close()

    def is_closing(self):
        return self._closing

    def close(self):
        if self._closing:
            return
        self._closing = True
        self._end.close()
        self._schedule_lost(None)

    def abort(self):
        self._closing = True
        self._end.kill()
        self._schedule_lost(None)

    def _fatal(self, exc):
        self._closing = True
        self._end.kill()
        self._schedule_lost(exc)

    def _schedule_lost(self, exc):
        if self._lost_scheduled:
            return
        self._lost_scheduled = True
        self._loop.call_soon(self._call_connection_lost, exc)

    def _call_connection_lost(self, exc):
        self._conn_lost = True
        # stop reading
        self._end.dead = True
        self._end.backlog.clear()
        if self._end.peer is not None:
            self._end.peer._check_writable()
        try:
            self._protocol.connection_lost(exc)
        finally:
            if self._server is not None:
                self._server._detach(self)
                self._server = None


class FakeServer:
    def __init__(self, net, cb, path):
        self.net = net
        self.loop = net.loop
        self.cb = cb
        self.path = path
        self.closed = False
        self.active = set()
        self._waiters = []
        self.accepted = 0

    def get_loop(self):
        return self.loop

    def is_serving(self):
        return not self.closed

    def close(self):
        if self.closed:
            return
        self.closed = True
        if self.net.servers.get(self.path) is self:
            del self.net.servers[self.path]
        self._wake()

    def _detach(self, transport):
        self.active.discard(transport)
        self._wake()

    def _wake(self):
        if self.closed and not self.active:
            waiters, self._waiters = self._waiters, []
            for w in waiters:
                if not w.done():
                    w.set_result(None)

    async def wait_closed(self):
        if self.closed and not self.active:
            return
        w = self.loop.create_future()
        self._waiters.append(w)
        await w

    def _accept(self, end):
        """Create the server side of a connection (called on the loop thread)."""
        if self.closed:
            # Listening socket closed before accept: the client sees a reset.
            end.kill()
            return
        self.accepted += 1
        reader = asyncio.StreamReader(limit=2**16, loop=self.loop)
        protocol = asyncio.StreamReaderProtocol(reader, self.cb, loop=self.loop)
        transport = SimTransport(self.loop, end, protocol, server=self)
        self.active.add(transport)
        protocol.connection_made(transport)
        end.flush_backlog()


class SimNet:
    def __init__(self, loop, chooser, log=None, max_latency_ms=30):
        self.loop = loop
        self.chooser = chooser
        self.log = log
        self.max_latency_ms = max_latency_ms
        self.servers = {}
        self.nconn = 0
        self.stats = collections.Counter()
        self.ends = []

    # -- server ------------------------------------------------------------------------
    async def start_unix_server(self, client_connected_cb, path=None, **kwargs):
        srv = FakeServer(self, client_connected_cb, str(path))
        self.servers[str(path)] = srv
        return srv

    # -- connecting ----------------------------------------------------------------------
    def _new_pair(self):
        self.nconn += 1
        c = End(self, self.nconn, "c")
        s = End(self, self.nconn, "s")
        c.peer, s.peer = s, c
        self.ends.append(c)
        self.ends.append(s)
        return c, s

    def _connect(self, path):
        srv = self.servers.get(str(path))
        if srv is None or srv.closed:
            raise ConnectionRefusedError(111, f"Connection refused: {path}")
        c, s = self._new_pair()
        d = self.chooser.delay("net.accept", 0, self.max_latency_ms)
        self.loop.call_later(d, srv._accept, s)
        self.stats["connections"] += 1
        return c

    async def open_unix_connection(self, path=None, **kwargs):
        c = self._connect(path)
        reader = asyncio.StreamReader(limit=2**16, loop=self.loop)
        protocol = asyncio.StreamReaderProtocol(reader, loop=self.loop)
        transport = SimTransport(self.loop, c, protocol)
        protocol.connection_made(transport)
        writer = asyncio.StreamWriter(transport, protocol, reader, self.loop)
        return reader, writer

    def connect_socket(self, fsock, path):
        c = self._connect(path)
        c.owner = fsock
        return c


class FakeSocket:
    """Blocking-socket look-alike for `SocketSyncRPCClient`, used inside step threads."""

    def __init__(self, module):
        self._module = module
        self._end = None
        self._buf = bytearray()
        self._eof = False
        self._timeout = None
        self._closed = False
        self._waiter = None  # SimProc parked in recv

    def settimeout(self, t):
        self._timeout = t

    def connect(self, path):
        net = self._module.net()
        self._end = net.connect_socket(self, path)

    def sendall(self, data):
        if self._closed:
            raise OSError(9, "Bad file descriptor")
        peer = self._end.peer
        if peer.dead:
            raise BrokenPipeError(32, "Broken pipe")
        self._end.send(bytes(data))
        proc = self._module.current_proc()
        if proc is not None and proc.die_after_sends is not None:
            proc.die_after_sends -= 1
            if proc.die_after_sends <= 0:
                # the process dies right after the complete request left
                from .simproc import Killed

                proc.die_after_sends = None
                if getattr(proc, "die_goodbye", False):
                    # the process is interrupted between request and reply and leaves in good
                    # order: its client's close request (header with an empty body, see the
                    # wire format in stepup/core/rpc.py) follows the pending request
                    import struct

                    self._end.send(struct.pack(">QQ", 2**40, 0))
                    proc.world.count("fault.client_goodbye_with_call_pending")
                proc.killed = 9
                proc.world.count("fault.client_death_after_send")
                proc.world.log_event("fault", "client_death", proc.label)
                raise Killed()

    def recv(self, n):
        if self._closed:
            raise OSError(9, "Bad file descriptor")
        if not self._buf and not self._eof:
            proc = self._module.current_proc()
            if proc is None:
                raise RuntimeError("FakeSocket.recv would block outside a SimProc")
            proc.wait_recv(self, self._timeout)
        if self._buf:
            out = bytes(self._buf[:n])
            del self._buf[:n]
            return out
        return b""

    def close(self):
        if self._closed:
            return
        self._closed = True
        if self._end is not None:
            if self._buf or not self._eof:
                # unread data / open peer: like close() on a real socket
                self._end.close()
                self._end.dead = True
                self._end.backlog.clear()
            else:
                self._end.close()
                self._end.dead = True

    def kill(self):
        """The owning process died: the kernel closes the socket."""
        if self._closed:
            return
        self._closed = True
        if self._end is not None:
            self._end.close()
            self._end.dead = True
            self._end.backlog.clear()
            if self._end.peer is not None:
                self._end.peer._check_writable()

    # called by End on the loop thread
    def on_data(self, data):
        self._buf += data
        self._wake()

    def on_eof(self):
        self._eof = True
        self._wake()

    def _wake(self):
        w = self._waiter
        if w is not None:
            self._waiter = None
            w.wake_from_recv()


class SimSocketModule:
    """Stands in for the `socket` module inside `stepup.core.rpc`."""

    AF_UNIX = 1
    timeout = TimeoutError

    def __init__(self, net_getter, proc_getter):
        self.net = net_getter
        self.current_proc = proc_getter
        self.send_hook = None

    def socket(self, family=None, *args):
        return FakeSocket(self)
