"""One integer decides everything: all run-time choices come from here."""

import hashlib
import random

__all__ = ("Chooser", "derive_seed")


def derive_seed(*parts) -> int:
    """A 63-bit seed derived from arbitrary printable parts; stable across processes."""
    h = hashlib.sha256("\x1f".join(str(p) for p in parts).encode()).digest()
    return int.from_bytes(h[:8], "big") >> 1


class Chooser:
    """Schedule stream.

    mode "seeded": draws from a PRNG; mode "calm": always the smallest value.
    `profile` scales ranges (swarm): each label may have its own (lo, hi) override.
    """

    def __init__(self, seed: int, mode: str = "seeded", profile: dict | None = None):
        self.seed = seed
        self.mode = mode
        self.rng = random.Random(seed)
        self.profile = profile or {}
        self.ndraws = 0
        self.counts = {}

    def draw(self, label: str, lo: int, hi: int) -> int:
        """An integer in [lo, hi]."""
        ov = self.profile.get(label)
        if ov is not None:
            lo, hi = ov
        self.ndraws += 1
        self.counts[label] = self.counts.get(label, 0) + 1
        if self.mode == "calm" or hi <= lo:
            return lo
        return self.rng.randint(lo, hi)

    def delay(self, label: str, lo_ms: int, hi_ms: int) -> float:
        """A delay in seconds with millisecond granularity."""
        return self.draw(label, lo_ms, hi_ms) / 1000.0

    def chance(self, label: str, permille: int) -> bool:
        ov = self.profile.get(label)
        if ov is not None:
            permille = ov[0]
        self.ndraws += 1
        if self.mode == "calm":
            return False
        return self.rng.randint(0, 999) < permille
