"""Scenario generation: abstract projects, their rendering to files, edit operators.

An abstract project is plain JSON-able data:

  {"sources": {path: token}, "env": {name: value|None},
   "plans":  [{"name","path","wd","parent","hold": bool}],
   "steps":  [{"name","plan","wd","script": path|None,"acts":[[verb, arg]...],
               "optional": bool, "resources": {..}, "shell": bool, "envdecl": [names]}],
   "statics": {path: plan name},          # explicit static() declarations
   "trees":   {dirpath/: plan name},      # static trees
   "globs":   [{"plan", "pattern", "subs", "var", "each": step template}]}

All paths in the abstract project are root-relative; rendering makes them relative to the
working directory of the script that uses them.
"""

import copy
import json
import os
import random

from .chooser import derive_seed
from .progs import render_script

__all__ = (
    "gen_project",
    "render",
    "mutate",
    "FEATURES",
    "gen_config",
    "project_outputs",
)

FEATURES = (
    "bad",
    "subplans",
    "workdirs",
    "scripts",
    "amend_pre",
    "amend_late",
    "amend_out",
    "vols",
    "env",
    "optional",
    "trees",
    "globs",
    "resources",
    "hold",
    "hostile",
    "fanin",
)

PLAIN = "abcdefghijklmnopqrstuvwxyz"
HOSTILE_PARTS = ["Data", "data", "a%b", "a_b", "x.y", "d-1", "0", "é", "A", "a", "b!c", "aXb"]


def pick_features(rng: random.Random, always=(), never=()):
    feats = set(always)
    for f in FEATURES:
        if f in never or f in feats:
            continue
        if rng.random() < 0.45:
            feats.add(f)
    return sorted(feats)


class Namer:
    def __init__(self, rng, hostile):
        self.rng = rng
        self.hostile = hostile
        self.used = set()

    def name(self, prefix, ext=".txt"):
        for _ in range(100):
            if self.hostile and self.rng.random() < 0.5:
                base = self.rng.choice(HOSTILE_PARTS) + str(self.rng.randint(0, 9))
            else:
                base = prefix + str(len(self.used))
            n = base + ext
            if n.lower() not in {u.lower() for u in self.used} or self.hostile:
                if n not in self.used:
                    self.used.add(n)
                    return n
        n = f"{prefix}{len(self.used)}x{ext}"
        self.used.add(n)
        return n

    def dirname(self, prefix):
        for _ in range(100):
            if self.hostile and self.rng.random() < 0.6:
                base = self.rng.choice(HOSTILE_PARTS)
            else:
                base = prefix + str(len(self.used))
            if base not in self.used:
                self.used.add(base)
                return base
        base = f"{prefix}{len(self.used)}x"
        self.used.add(base)
        return base


def _rel(path, wd):
    r = os.path.relpath(path, wd)
    if path.endswith("/") and not r.endswith("/"):
        r += "/"
    return r


def gen_project(rng: random.Random, feats, size=None) -> dict:
    feats = set(feats)
    namer = Namer(rng, "hostile" in feats)
    nsteps = size if size is not None else rng.randint(1, 8)
    nsrc = rng.randint(1, 5)
    proj = {
        "sources": {},
        "env": {},
        "plans": [{"name": "P0", "path": "plan.py", "wd": ".", "parent": None, "hold": False}],
        "steps": [],
        "statics": {},
        "trees": {},
        "globs": [],
        "uid": 0,
    }
    # plans
    if "subplans" in feats:
        for k in range(rng.randint(1, 3)):
            parent = rng.choice(proj["plans"])["name"]
            if "workdirs" in feats and rng.random() < 0.6:
                d = namer.dirname("sub")
                path, wd = f"{d}/plan.py", d
            else:
                path, wd = f"plan_{k + 1}.py", "."
            proj["plans"].append(
                {"name": f"P{k + 1}", "path": path, "wd": wd, "parent": parent, "hold": False}
            )
    if "hold" in feats:
        for p in proj["plans"]:
            p["hold"] = rng.random() < 0.5
    # env
    if "env" in feats:
        for k in range(rng.randint(1, 2)):
            proj["env"][f"VAR_{'AB'[k]}"] = rng.choice(["1", "x y", None])
    # sources
    tree_dir = None
    if "trees" in feats:
        tree_dir = namer.dirname("data")
        proj["trees"][tree_dir + "/"] = rng.choice(proj["plans"])["name"]
    for k in range(nsrc):
        n = namer.name("src")
        if tree_dir is not None and rng.random() < 0.5:
            n = f"{tree_dir}/{n}"
        proj["sources"][n] = _token(proj)
    # steps, in topological order
    avail = sorted(proj["sources"])  # files that may serve as inputs
    for k in range(nsteps):
        st = _gen_step(rng, proj, feats, namer, k, avail)
        proj["steps"].append(st)
        for verb, arg in st["acts"]:
            # Only declared outputs serve as inputs of other steps: who produces an amended
            # output is knowledge that only a previous run can provide, so a consumer of one
            # makes buildability legitimately history-dependent.
            if verb == "write":
                avail.append(arg)
    if "amend_pre" in feats:
        _mix_tree_amends(proj)
    _assign_statics(rng, proj)
    if "globs" in feats and rng.random() < 0.7:
        _gen_glob(rng, proj, feats, namer)
    if "optional" in feats:
        _fix_optional(proj)
    return proj


def _token(proj):
    proj["uid"] += 1
    return f"u{proj['uid']}"


def _gen_step(rng, proj, feats, namer, k, avail):
    plan = rng.choice(proj["plans"])
    wd = plan["wd"]
    if "workdirs" in feats and rng.random() < 0.3:
        wd = rng.choice([".", namer.dirname("wd")])
    st = {
        "name": f"S{k}",
        "plan": plan["name"],
        "wd": wd,
        "script": None,
        "acts": [],
        "optional": False,
        "resources": {},
        "shell": False,
        "sleep_ms": rng.choice([0, 0, 50, 200, 700]),
    }
    if "scripts" in feats and rng.random() < 0.4:
        st["script"] = namer.name("w", ".py")
    nin = rng.randint(0, min(3, len(avail))) if avail else 0
    if "fanin" in feats and avail:
        nin = max(nin, min(len(avail), 2))
    ins = rng.sample(avail, nin) if nin else []
    acts = []
    for p in ins:
        r = rng.random()
        if "amend_pre" in feats and r < 0.25:
            acts.append(["aread", p])
        elif "amend_late" in feats and r < 0.4:
            acts.append(["reada", p])
        else:
            acts.append(["read", p])
    if "env" in feats and proj["env"] and rng.random() < 0.4:
        name = rng.choice(sorted(proj["env"]))
        acts.append(["getenv", name] if rng.random() < 0.6 else ["envdecl", name])
    if st["sleep_ms"]:
        acts.append(["sleep", st["sleep_ms"] / 1000.0])
    nout = rng.randint(1, 2)
    outdir = ""
    if rng.random() < 0.3:
        outdir = namer.dirname("out") + "/"
    for j in range(nout):
        o = outdir + namer.name("o")
        r = rng.random()
        if "amend_out" in feats and r < 0.2:
            acts.append(["awrite", o])
        elif "vols" in feats and r < 0.35:
            acts.append(["vol", o])
        else:
            acts.append(["write", o])
    if "optional" in feats and rng.random() < 0.4:
        st["optional"] = True
    if "resources" in feats and rng.random() < 0.4:
        st["resources"] = {rng.choice(["cpu", "gpu"]): rng.randint(1, 2)}
    st["acts"] = acts
    return st


def _assign_statics(rng, proj):
    """Every source outside a tree, every script and every sub-plan needs a static()."""
    plans = [p["name"] for p in proj["plans"]]
    gdirs = [g["dir"] + "/" for g in proj["globs"]]
    undeclared = set(proj.get("undeclared", ()))
    for src in proj["sources"]:
        if any(src.startswith(t) for t in proj["trees"]):
            continue
        if any(src.startswith(d) for d in gdirs):
            proj["statics"].pop(src, None)
            continue
        if src in undeclared:
            proj["statics"].pop(src, None)
            continue
        if src not in proj["statics"]:
            proj["statics"][src] = rng.choice(plans)
    for st in proj["steps"]:
        if st["script"] and st["script"] not in proj["statics"]:
            proj["statics"][st["script"]] = st["plan"]
    for p in proj["plans"]:
        if p["parent"] is not None:
            proj["statics"][p["path"]] = p["parent"]
    # a tree whose directory would not exist cannot be declared
    for t in list(proj["trees"]):
        if not any(src.startswith(t) for src in proj["sources"]):
            del proj["trees"][t]
    # drop statics of files that no longer exist
    known = set(proj["sources"]) | {s["script"] for s in proj["steps"] if s["script"]}
    known |= {p["path"] for p in proj["plans"]}
    for k in list(proj["statics"]):
        if k not in known:
            del proj["statics"][k]


def _gen_glob(rng, proj, feats, namer):
    d = namer.dirname("g")
    plan = rng.choice(proj["plans"])["name"]
    n = rng.randint(0, 3)
    # opt-in (never drawn from FEATURES): a pattern that spans directory levels
    deep = "deepglobs" in feats and rng.random() < 0.7
    if "deepglobs" in feats and rng.random() < 0.4:
        # the pattern's base directory is nested: with no match yet, neither level exists
        d = d + "/in"
    for k in range(n):
        sub = f"s{k % 2}/" if deep and k else ""
        proj["sources"][f"{d}/{sub}i{k}.dat"] = _token(proj)
    mode = rng.choice(["tree", "static_pattern"])
    if mode == "tree":
        proj["trees"][d + "/"] = plan
    # a named wildcard with a sub-pattern, next to a file that only the bare `*` would match
    subs = {}
    if rng.random() < 0.3:
        subs = {"n": "i*"}
        proj["sources"][f"{d}/zz{proj['uid']}.dat"] = _token(proj)
    proj["globs"].append(
        {
            "plan": plan,
            "dir": d,
            "mode": mode,
            "deep": deep,
            "subs": subs,
            "pattern": f"{d}/**/${{*n}}.dat" if deep else f"{d}/${{*n}}.dat",
            "out": f"{d}_o_{{n}}.txt",
            "name": f"G{len(proj['globs'])}",
        }
    )


def _fix_optional(proj):
    """An optional step whose outputs nobody consumes is fine (it just is not built)."""


def project_outputs(proj):
    """(regular outputs, volatile outputs, producer-by-path) of the abstract project."""
    outs, vols, prod = set(), set(), {}
    for st in proj["steps"]:
        for verb, arg in st["acts"]:
            if verb in ("write", "awrite"):
                outs.add(arg)
                prod[arg] = st["name"]
            elif verb in ("vol", "vwrite"):
                vols.add(arg)
                prod[arg] = st["name"]
    return outs, vols, prod


# ---------------------------------------------------------------------------------------------
# Rendering
# ---------------------------------------------------------------------------------------------


def step_command(st) -> str:
    """The command text of a step (its identity in StepUp, together with the workdir)."""
    wd = st["wd"]
    if st["script"]:
        return "./" + _rel(st["script"], wd)
    toks = [st["name"]]
    for verb, arg in st["acts"]:
        t = _compact_token(verb, arg, wd)
        if t:
            toks.append(t)
    return " ".join(toks)


def _compact_token(verb, arg, wd):
    if verb == "read":
        return f"r={_rel(arg, wd)}"
    if verb == "aread":
        return f"a={_rel(arg, wd)}"
    if verb == "areadt":
        return "at=" + "::".join(_rel(q, wd) for q in arg.split("::"))
    if verb == "reada":
        return f"la={_rel(arg, wd)}"
    if verb in ("write", "vol"):
        return f"w={_rel(arg, wd)}"
    if verb == "awrite":
        return f"ao={_rel(arg, wd)}"
    if verb == "vwrite":
        return f"av={_rel(arg, wd)}"
    if verb == "getenv":
        return f"e={arg}"
    if verb == "sleep":
        return f"s={arg}"
    if verb == "exit":
        return f"x={arg}"
    if verb == "envdecl":
        return None
    raise ValueError(verb)


def _script_ops(st):
    wd = st["wd"]
    ops = []
    for verb, arg in st["acts"]:
        if verb == "areadt":
            ops.append([verb, *(_rel(q, wd) for q in arg.split("::"))])
        elif verb in ("read", "aread", "reada", "awrite", "vwrite"):
            ops.append([verb, _rel(arg, wd)])
        elif verb in ("write", "vol"):
            ops.append(["write", _rel(arg, wd)])
        elif verb == "getenv":
            ops.append(["getenv", arg])
        elif verb == "sleep":
            ops.append(["sleep", arg])
        elif verb == "exit":
            ops.append(["exit", arg])
    return ops


def _step_decl(st, plan_wd):
    """The plan op that declares this step, with paths relative to the step's workdir."""
    wd = st["wd"]
    kw = {}
    inp = [_rel(a, wd) for v, a in st["acts"] if v == "read"]
    out = [_rel(a, wd) for v, a in st["acts"] if v == "write"]
    vol = [_rel(a, wd) for v, a in st["acts"] if v == "vol"]
    env = [a for v, a in st["acts"] if v == "envdecl"]
    if inp:
        kw["inp"] = inp
    if out:
        kw["out"] = out
    if vol:
        kw["vol"] = vol
    if env:
        kw["env"] = env
    if wd != plan_wd:
        kw["workdir"] = _rel(wd, plan_wd) + "/"
    if st["resources"]:
        kw["resources"] = st["resources"]
    cmd = step_command(st)
    if st["script"]:
        if st["optional"]:
            kw["optional"] = True
        return ["run", cmd, kw]
    if st["optional"]:
        kw["need"] = "OPTIONAL"
    if st.get("shell"):
        kw["shell"] = True
    return ["step", cmd, kw]


def render(proj) -> dict:
    """Abstract project -> {relpath: (text, mode)}."""
    files = {}
    for path, token in proj["sources"].items():
        files[path] = (f"src:{path}:{token}\n", 0o644)
    for st in proj["steps"]:
        if st["script"]:
            files[st["script"]] = (render_script(_script_ops(st)), 0o755)
    plans = {p["name"]: p for p in proj["plans"]}
    for p in proj["plans"]:
        wd = p["wd"]
        ops = []
        trees = sorted(t for t, owner in proj["trees"].items() if owner == p["name"])
        statics = sorted(s for s, owner in proj["statics"].items() if owner == p["name"])
        args = [_rel(t, wd) for t in trees] + [_rel(s, wd) for s in statics]
        if args:
            ops.append(["static", *args])
        body = []
        for g in proj["globs"]:
            if g["plan"] != p["name"]:
                continue
            pat = _rel(g["pattern"], wd)
            if g["mode"] == "static_pattern":
                body.append(["static", pat])
            body.append(["glob", pat, dict(g.get("subs") or {}), g["name"]])
            out = _rel(g["out"], wd)
            body.append(
                [
                    "each",
                    g["name"],
                    [["step", f"{g['name']} r={{f}} w={out}", {"inp": ["{f}"], "out": [out]}]],
                ]
            )
        for child in proj["plans"]:
            if child["parent"] == p["name"]:
                kw = {}
                if child["wd"] != wd:
                    kw["workdir"] = _rel(child["wd"], wd) + "/"
                cmd = "./" + _rel(child["path"], child["wd"])
                body.append(["plan", cmd, kw])
        for st in proj["steps"]:
            if st["plan"] == p["name"]:
                body.append(_step_decl(st, wd))
        if p.get("hold") and body:
            ops.append(["hold", body])
        else:
            ops.extend(body)
        extra = p.get("extra_ops")
        if extra:
            ops.extend(extra)
        files[p["path"]] = (render_script(ops), 0o755)
    return files


# ---------------------------------------------------------------------------------------------
# Edit operators: project -> project (deep-copied)
# ---------------------------------------------------------------------------------------------


def read_paths(verb, arg):
    """The paths that an act reads (an `areadt` act names two in one amend call)."""
    if verb in ("read", "aread", "reada"):
        return [arg]
    if verb == "areadt":
        return arg.split("::")
    return []


def _mix_tree_amends(proj):
    """Turn some `aread` acts into `areadt`: ONE amend() call that names the input and a file
    of a static tree as well.  The director then has to confirm the tree file (a hash job,
    a second transaction) while the other path of the same call may be unavailable, and the
    two answers have to be combined.  Drawn from a stream of its own, so that the rest of
    the project does not depend on it."""
    tree_files = sorted(s for s in proj["sources"] if any(s.startswith(t) for t in proj["trees"]))
    if not tree_files:
        return
    prng = random.Random(derive_seed("areadt", proj["uid"], len(proj["steps"]), tree_files[0]))
    if prng.random() < 0.5:
        return
    for st in proj["steps"]:
        for act in st["acts"]:
            if act[0] == "aread" and act[1] not in tree_files and prng.random() < 0.6:
                act[0] = "areadt"
                act[1] = f"{act[1]}::{prng.choice(tree_files)}"


def consumers_of(proj, paths):
    """Names of steps reading any of `paths` (declared, amended or late)."""
    paths = set(paths)
    out = []
    for st in proj["steps"]:
        for verb, arg in st["acts"]:
            if any(q in paths for q in read_paths(verb, arg)):
                out.append(st["name"])
                break
    return out


def drop_steps(proj, names, cascade=True):
    """Remove steps; with `cascade` also everything that consumes their outputs."""
    names = set(names)
    changed = True
    while changed:
        changed = False
        gone = set()
        for st in proj["steps"]:
            if st["name"] in names:
                for verb, arg in st["acts"]:
                    if verb in ("write", "awrite", "vol", "vwrite"):
                        gone.add(arg)
        if cascade:
            for c in consumers_of(proj, gone):
                if c not in names:
                    names.add(c)
                    changed = True
    dropped = [st for st in proj["steps"] if st["name"] in names]
    proj["steps"] = [st for st in proj["steps"] if st["name"] not in names]
    return dropped


def mutate(rng: random.Random, proj: dict, feats, stash: list, masks=frozenset()) -> tuple:
    """Apply one random edit operator. Returns (new_project, description)."""
    feats = set(feats)
    p = copy.deepcopy(proj)
    ops = ["edit_source", "edit_source", "drop_step", "readd", "tweak_step", "edit_env"]
    if p["plans"] and len(p["plans"]) > 1:
        ops += ["drop_plan"]
        if "move_step" not in masks:
            ops.append("move_step")
    if "scripts" in feats:
        ops.append("edit_script")
    ops += ["add_step", "rename_out", "toggle_optional", "add_source", "del_source"]
    if p["globs"]:
        ops += ["glob_add", "glob_del"]
    if "scripts" in feats:
        ops.append("drop_input")
    if "bad" in feats:
        ops += ["fail_step", "unfail_step", "undeclare", "redeclare", "bad_resource", "fail_step"]
    op = rng.choice(ops)
    cascade = True if "drop_producer" in masks else (rng.random() < 0.5)
    desc = op
    if op == "edit_source" and p["sources"]:
        k = rng.choice(sorted(p["sources"]))
        p["sources"][k] = _token(p)
        desc = f"edit_source {k}"
    elif op == "add_source":
        n = f"src_n{p['uid']}.txt"
        p["sources"][n] = _token(p)
        p["statics"][n] = rng.choice(p["plans"])["name"]
        desc = f"add_source {n}"
    elif op == "del_source" and p["sources"]:
        k = rng.choice(sorted(p["sources"]))
        users = consumers_of(p, [k])
        dropped = drop_steps(p, users, cascade=True)
        stash.extend(dropped)
        del p["sources"][k]
        p["statics"].pop(k, None)
        for g in p["globs"]:
            pass
        desc = f"del_source {k} (-{len(dropped)} steps)"
    elif op == "drop_step" and p["steps"]:
        st = rng.choice(p["steps"])
        dropped = drop_steps(p, [st["name"]], cascade=cascade)
        stash.extend(dropped)
        desc = f"drop_step {st['name']} cascade={cascade} (-{len(dropped)})"
    elif op == "readd" and stash:
        st = stash.pop(rng.randrange(len(stash)))
        if _can_add(p, st):
            p["steps"].append(copy.deepcopy(st))
            desc = f"readd {st['name']}"
        else:
            desc = f"readd {st['name']} (skipped)"
    elif op == "tweak_step" and p["steps"]:
        st = rng.choice(p["steps"])
        acts = [a for a in st["acts"] if a[0] != "sleep"]
        acts.insert(max(0, len(acts) - 1), ["sleep", rng.choice([0.05, 0.3, 0.9])])
        st["acts"] = acts
        desc = f"tweak_step {st['name']}"
    elif op == "edit_env" and p["env"]:
        k = rng.choice(sorted(p["env"]))
        p["env"][k] = rng.choice(["1", "2", "x y", None, "z" + str(p["uid"])])
        p["uid"] += 1
        desc = f"edit_env {k}={p['env'][k]!r}"
    elif op == "drop_plan":
        cand = [pl for pl in p["plans"] if pl["parent"] is not None]
        pl = rng.choice(cand)
        gone = {pl["name"]}
        ch = True
        while ch:
            ch = False
            for q in p["plans"]:
                if q["parent"] in gone and q["name"] not in gone:
                    gone.add(q["name"])
                    ch = True
        victims = [s["name"] for s in p["steps"] if s["plan"] in gone]
        dropped = drop_steps(p, victims, cascade=cascade)
        stash.extend(dropped)
        p["plans"] = [q for q in p["plans"] if q["name"] not in gone]
        # Whatever the dropped plans declared moves to another plan.  Moving a declaration to
        # a plan that is not the parent of the dropped plan is the trigger of known finding F3.
        heir = pl["parent"] if "move_step" in masks else rng.choice([pl["parent"], "P0"])
        for k, owner in list(p["statics"].items()):
            if owner in gone:
                p["statics"][k] = heir
        for k, owner in list(p["trees"].items()):
            if owner in gone:
                p["trees"][k] = heir
        for s in p["steps"]:
            if s["plan"] in gone:
                s["plan"] = heir
        p["globs"] = [g for g in p["globs"] if g["plan"] not in gone]
        for s in stash:
            if s["plan"] in gone:
                s["plan"] = heir
        _assign_statics(rng, p)
        desc = f"drop_plan {sorted(gone)} (-{len(dropped)})"
    elif op == "move_step" and p["steps"]:
        st = rng.choice(p["steps"])
        st["plan"] = rng.choice(p["plans"])["name"]
        if st["script"]:
            p["statics"][st["script"]] = st["plan"]
        desc = f"move_step {st['name']} -> {st['plan']}"
    elif op == "edit_script":
        cand = [s for s in p["steps"] if s["script"]]
        if cand:
            st = rng.choice(cand)
            acts = [a for a in st["acts"] if a[0] != "sleep"]
            acts.insert(0, ["sleep", rng.choice([0.01, 0.2, 0.5])])
            st["acts"] = acts
            desc = f"edit_script {st['name']}"
    elif op == "add_step":
        avail = sorted(p["sources"]) + sorted(
            a for s_ in p["steps"] for v, a in s_["acts"] if v == "write"
        )
        namer = Namer(rng, False)
        namer.used = {f"n{p['uid']}"}
        p["uid"] += 1
        k = p["uid"]
        st = _gen_step(rng, p, feats, namer, 0, avail)
        st["name"] = f"N{k}"
        # make names unique
        st["acts"] = [
            [v, (f"n{k}_" + a if v in ("write", "awrite", "vol", "vwrite") else a)]
            for v, a in st["acts"]
        ]
        if st["script"]:
            st["script"] = f"wn{k}.py"
        p["steps"].append(st)
        _assign_statics(rng, p)
        desc = f"add_step {st['name']}"
    elif op == "rename_out" and p["steps"]:
        st = rng.choice(p["steps"])
        outs = [a for v, a in st["acts"] if v in ("write", "awrite", "vol", "vwrite")]
        if outs:
            old = rng.choice(outs)
            p["uid"] += 1
            new = os.path.join(os.path.dirname(old), f"r{p['uid']}_" + os.path.basename(old))
            for s in p["steps"]:
                s["acts"] = [[v, (new if a == old else a)] for v, a in s["acts"]]
            desc = f"rename_out {old} -> {new}"
    elif op == "toggle_optional" and p["steps"]:
        st = rng.choice(p["steps"])
        st["optional"] = not st["optional"]
        desc = f"toggle_optional {st['name']} -> {st['optional']}"
    elif op == "glob_add" and p["globs"]:
        g = rng.choice(p["globs"])
        p["uid"] += 1
        sub = ""
        if g.get("deep"):
            sub = rng.choice(["", "s0/", f"n{p['uid']}/", f"n{p['uid']}/m/"])
        n = f"{g['dir']}/{sub}i{p['uid']}.dat"
        p["sources"][n] = _token(p)
        desc = f"glob_add {n}"
    elif op == "glob_del" and p["globs"]:
        g = rng.choice(p["globs"])
        cand = sorted(s for s in p["sources"] if s.startswith(g["dir"] + "/"))
        if cand:
            k = rng.choice(cand)
            del p["sources"][k]
            desc = f"glob_del {k}"
    elif op == "drop_input":
        cand = [s_ for s_ in p["steps"] if s_["script"] and any(a[0] in ("read", "aread", "reada", "areadt") for a in s_["acts"])]
        if cand:
            st = rng.choice(cand)
            idx = [k for k, a in enumerate(st["acts"]) if a[0] in ("read", "aread", "reada", "areadt")]
            k = rng.choice(idx)
            gone = st["acts"].pop(k)
            desc = f"drop_input {st['name']} {gone}"
    elif op == "fail_step" and p["steps"]:
        st = rng.choice(p["steps"])
        if not any(a[0] == "exit" for a in st["acts"]):
            pos = rng.randint(0, len(st["acts"]))
            st["acts"].insert(pos, ["exit", rng.choice([1, 1, 2])])
            desc = f"fail_step {st['name']} at {pos}"
    elif op == "unfail_step":
        cand = [s_ for s_ in p["steps"] if any(a[0] == "exit" for a in s_["acts"])]
        if cand:
            st = rng.choice(cand)
            st["acts"] = [a for a in st["acts"] if a[0] != "exit"]
            desc = f"unfail_step {st['name']}"
    elif op == "undeclare":
        cand = sorted(k for k in p["statics"] if k in p["sources"])
        if cand:
            k = rng.choice(cand)
            p.setdefault("undeclared", []).append(k)
            desc = f"undeclare {k}"
    elif op == "redeclare" and p.get("undeclared"):
        k = p["undeclared"].pop(rng.randrange(len(p["undeclared"])))
        desc = f"redeclare {k}"
    elif op == "bad_resource" and p["steps"]:
        st = rng.choice(p["steps"])
        st["resources"] = rng.choice([{"tpu": 1}, {"cpu": 9}, {"cpu": 1, "tpu": 2}, {}])
        desc = f"bad_resource {st['name']} {st['resources']}"
    _assign_statics(rng, p)
    return p, desc


def _can_add(p, st):
    """A stashed step can be re-added if its inputs exist and its outputs are free."""
    outs, vols, prod = project_outputs(p)
    have = set(p["sources"]) | outs
    names = {s["name"] for s in p["steps"]}
    if st["name"] in names:
        return False
    if st["plan"] not in {q["name"] for q in p["plans"]}:
        return False
    for verb, arg in st["acts"]:
        if any(q not in have for q in read_paths(verb, arg)):
            return False
        if verb in ("write", "awrite", "vol", "vwrite") and (arg in outs or arg in vols):
            return False
    return True


# ---------------------------------------------------------------------------------------------
# Build configurations
# ---------------------------------------------------------------------------------------------


def gen_config(rng: random.Random, feats, final=False) -> dict:
    cfg = {"njob": rng.choice([1, 1, 2, 3, 4, 8])}
    if "resources" in feats:
        cfg["available_resources"] = rng.choice(["cpu:2,gpu:2", "cpu:4,gpu:2", "cpu:2,gpu:3"])
    if not final:
        if rng.random() < 0.25:
            cfg["do_clean"] = False
        if rng.random() < 0.2:
            cfg["keep_going"] = True
    if rng.random() < 0.3:
        cfg["use_duration"] = False
    if rng.random() < 0.2:
        cfg["explain_rerun"] = True
    if rng.random() < 0.3:
        cfg["live_progress"] = True
    return cfg
