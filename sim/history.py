"""History workload: a project, a sequence of edits, a build after each."""

import copy
import os
import random

from . import dbview, gen
from .chooser import Chooser, derive_seed
from .universe import Universe, scratch_base

__all__ = ("gen_history", "run_history", "HistoryRun", "compare_with_scratch")

# Swarm timing profiles (range overrides of the chooser labels).  Three scenarios in four keep
# the default ranges; the others stretch one family of latencies so that races which need a
# long hash job, a slow launch, a slow network or a late report are not left to one tuning.
# Drawn from a stream of its own: the structure of a scenario does not depend on it.
SCHED_PROFILES = [
    {"hash.slow": [250]},
    {"hash.slow": [120], "proc.launch": [0, 5], "net.latency": [0, 2]},
    {"hash.delay": [50, 400], "proc.launch": [0, 300]},
    {"net.latency": [0, 200], "proc.launch": [0, 5]},
    {"proc.launch": [100, 600], "net.accept": [0, 300]},
    {"reporter.latency": [0, 100], "proc.yield": [0, 30]},
    {"net.latency": [0, 0], "proc.launch": [0, 0], "hash.delay": [0, 0]},
]


def gen_sched_profile(seed: int):
    prng = random.Random(derive_seed(seed, "sched-profile"))
    if prng.random() < 0.75:
        return None
    return copy.deepcopy(prng.choice(SCHED_PROFILES))


def gen_history(seed: int, always=(), never=(), masks=frozenset(), nphases=None, max_size=8):
    rng = random.Random(seed)
    feats = gen.pick_features(rng, always=always, never=never)
    proj = gen.gen_project(rng, feats, size=rng.randint(1, max_size))
    n = nphases if nphases is not None else rng.randint(2, 5)
    stash = []
    phases = [
        {
            "project": proj,
            "mode": "scratch",
            "cfg": gen.gen_config(rng, feats),
            "edits": ["initial"],
        }
    ]
    cur = proj
    for k in range(1, n):
        final = k == n - 1
        descs = []
        for _ in range(rng.randint(1, 3)):
            cur, d = gen.mutate(rng, cur, feats, stash, masks)
            descs.append(d)
        cfg = gen.gen_config(rng, feats, final=final)
        if final:
            cfg.pop("do_clean", None)
        phases.append({"project": cur, "mode": "restart", "cfg": cfg, "edits": descs})
    sched = {"mode": "seeded", "seed": derive_seed(seed, "sched")}
    prof = gen_sched_profile(seed)
    if prof:
        sched["profile"] = prof
    return {
        "seed": seed,
        "features": feats,
        "masks": sorted(masks),
        "phases": phases,
        "schedule": sched,
    }


class HistoryRun:
    def __init__(self, uni):
        self.uni = uni
        self.results = []
        self.trees = []
        self.user_ops = []
        self.detached_before = []

    @property
    def last(self):
        return self.results[-1]


def _detached_file_labels(uni):
    """Labels of the file nodes that are detached in the stored workflow right now."""
    import sqlite3

    path = os.path.join(uni.root, ".stepup", "graph.db")
    if not os.path.isfile(path):
        return frozenset()
    con = sqlite3.connect(path)
    try:
        return frozenset(
            r[0] for r in con.execute("SELECT label FROM node WHERE kind = 'file' AND detached")
        )
    except sqlite3.Error:
        return frozenset()
    finally:
        con.close()


def run_history(scenario, name="A", monitors=None, upto=None, base=None, take_temp=False,
                track_detached=False) -> HistoryRun:
    base = base or scratch_base()
    root = os.path.join(base, f"{scenario['seed']}-{name}")
    sched = scenario["schedule"]
    ch = Chooser(sched["seed"], mode=sched.get("mode", "seeded"), profile=sched.get("profile"))
    uni = Universe(root, ch, name=name, monitors=monitors)
    uni.world.take_temp = take_temp
    run = HistoryRun(uni)
    phases = scenario["phases"] if upto is None else scenario["phases"][:upto]
    for ph in phases:
        if track_detached:
            # which file nodes were detached while the user made the edits of this phase
            run.detached_before.append(_detached_file_labels(uni))
        ops = uni.sync_tree(ph["project"])
        run.user_ops.append(ops)
        res = uni.build(dict(ph["cfg"]), scratch=(ph["mode"] == "scratch"))
        run.results.append(res)
        if not res.ok:
            break
    return run


def scratch_twin(scenario, name="S", monitors=None, base=None):
    """Build the final project of the scenario from scratch under the calm schedule."""
    base = base or scratch_base()
    root = os.path.join(base, f"{scenario['seed']}-{name}")
    ch = Chooser(0, mode="calm")
    uni = Universe(root, ch, name=name, monitors=monitors)
    final = scenario["phases"][-1]
    uni.sync_tree(final["project"])
    cfg = {"njob": 1}
    if "available_resources" in final["cfg"]:
        cfg["available_resources"] = final["cfg"]["available_resources"]
    res = uni.build(cfg, scratch=True)
    return uni, res


def strip_for_twin(proj: dict) -> dict:
    """Remove what legitimately differs between an incremental and a scratch universe.

    - sinks that are detached nodes (of files and of steps): memories, never relations of the
      active graph;
    - the stored-hash flag and the deferred flag of steps that are not SUCCEEDED;
    - amended (dynamic) information of steps that are not SUCCEEDED: it is what the last
      run discovered, is validated or dropped before the step is used again, and a scratch
      build that never ran the step cannot have it.
    """
    nodes = proj["nodes"]
    not_done = {
        k for k, d in nodes.items() if d.get("kind") == "step" and d.get("state") != "SUCCEEDED"
    }
    out = {"nodes": {}, "detached": proj["detached"]}
    for k, d in nodes.items():
        d = dict(d)
        if d.get("kind") == "step":
            # a detached file among the sinks of a step is a former output that is only kept
            # because some step that did not run again still lists it as an (amended) input
            d["sinks"] = [(r, dyn) for r, dyn in d["sinks"] if not r.startswith("(")]
            if k in not_done:
                d.pop("has_hash", None)
                # whether the last attempt of a step that is not done was deferred is a memory
                # of that attempt, too (a deferral that matters shows in the return code)
                d.pop("deferred", None)
                d["sources"] = [(r, dyn) for r, dyn in d["sources"] if not dyn]
                d["sinks"] = [(r, dyn) for r, dyn in d["sinks"] if not dyn]
                d["env"] = [(n, dyn) for n, dyn in d["env"] if not dyn]
                d["nglob"] = []
        elif d.get("kind") == "file":
            d["sinks"] = [
                (r, dyn)
                for r, dyn in d["sinks"]
                if not r.startswith("(") and not (dyn and r in not_done)
            ]
            d["sources"] = [(r, dyn) for r, dyn in d["sources"] if not (dyn and r in not_done)]
        out["nodes"][k] = d
    # a file under a static tree gets its node lazily, when it is first used as an input;
    # without any remaining consumer it is a memory (delete_detached drops it at cleanup)
    for k in list(out["nodes"]):
        d = out["nodes"][k]
        if d.get("kind") == "file" and str(d.get("creator", "")).startswith("st:") and not d["sinks"]:
            del out["nodes"][k]
            c = out["nodes"].get(d["creator"])
            if c is not None:
                c["products"] = [p for p in c["products"] if p != k]
    # amended outputs of steps that are not SUCCEEDED exist only as a memory: a scratch build
    # that never ran the step does not know who produces them (consumers see an undeclared file)
    memory = set()
    for k in list(out["nodes"]):
        d = out["nodes"][k]
        if d.get("kind") == "file" and d.get("creator") in not_done:
            cd = nodes[d["creator"]]
            declared = {r for r, dyn in cd["sinks"] if not dyn}
            if k not in declared and d.get("state") in ("PLANNED", "OUTDATED", "VOLATILE"):
                memory.add(k)
    for k in memory:
        d = out["nodes"].pop(k)
        c = out["nodes"][d["creator"]]
        c["products"] = [p for p in c["products"] if p != k]
    if memory:
        for d in out["nodes"].values():
            d["sources"] = sorted(
                ((f"({r})" if r in memory else r), dyn) for r, dyn in d["sources"]
            )
    return out


def compare_with_scratch(run_a: HistoryRun, uni_s, res_s):
    """Return a list of difference strings (empty = equivalent)."""
    diffs = []
    ra = run_a.last
    if ra.rc_value != res_s.rc_value:
        diffs.append(f"returncode: A={ra.returncode} S={res_s.returncode}")
    if res_s.rc_value != 0:
        # The final project is not buildable: only the verdict is comparable.
        return diffs
    ta = run_a.uni.tree()
    ts = uni_s.tree()
    proj_a = run_a.uni.projection()
    proj_s = uni_s.projection()
    # C01 is about declared outputs; files that no active step declares are C07's business.
    declared = {}
    for proj in (proj_a, proj_s):
        for k, d in proj["nodes"].items():
            if d.get("kind") == "file" and d.get("state") in ("PLANNED", "BUILT", "OUTDATED", "VOLATILE"):
                declared[k[5:]] = d["state"] == "VOLATILE" or declared.get(k[5:], False)
    for p in sorted(declared):
        a, b = ta.get(p), ts.get(p)
        if declared[p]:
            if (a is None) != (b is None):
                diffs.append(f"tree {p} (volatile): A={a} S={b}")
        elif a != b:
            diffs.append(f"tree {p}: A={a} S={b}")
        if len(diffs) > 10:
            break
    pa = strip_for_twin(proj_a)
    ps = strip_for_twin(proj_s)
    diffs.extend("graph " + d for d in dbview.diff_projections(pa, ps))
    return diffs


def scenario_signature(scenario) -> str:
    """Structural signature of a scenario (independent of the schedule seed)."""
    import hashlib
    import json

    blob = json.dumps(
        {
            "f": scenario.get("features"),
            "p": [
                {
                    "files": sorted(gen.render(ph["project"]).items()),
                    "env": sorted((k, v) for k, v in ph["project"]["env"].items()),
                    "cfg": sorted(ph["cfg"].items()),
                    "mode": ph["mode"],
                }
                for ph in scenario["phases"]
            ],
        },
        sort_keys=True,
        default=str,
    )
    return hashlib.sha256(blob.encode()).hexdigest()[:16]


def collect(result, world, build_results):
    """Fold a world's log and build results into a runner.Result."""
    import hashlib

    for br in build_results:
        result.builds += 1
        result.vtime += br.vtime
        result.commits += br.ncommits
        h = hashlib.sha256()
        for ev in world.log[br.log_start : br.log_end]:
            kind = ev[2]
            if kind in ("cmd_start", "cmd_end"):
                h.update(f"{kind}:{ev[5]};".encode())
            elif kind == "rpc_in":
                h.update(f"r:{ev[4]};".encode())
            elif kind == "report":
                h.update(f"t:{ev[3]};".encode())
            elif kind == "commit":
                if ev[5] is not None:
                    result.states.add(ev[5])
        result.interleavings.add(h.hexdigest()[:16])
    ncmd = sum(1 for ev in world.log if ev[2] == "cmd_start")
    result.stats["commands"] += ncmd
    for k, v in world.stats.items():
        result.stats[k] += v
    prof = getattr(world.chooser, "profile", None)
    if prof:
        result.stats["swarm.sched_profile." + "+".join(sorted(prof))] += 1
    return ncmd
