"""Virtual-time asyncio event loop.

No selector, no real clock.  Timers are totally ordered by (when, seq); when nothing is
ready the clock jumps to the next timer.  Every iteration is one *tick*.
"""

import asyncio
import heapq
from asyncio import events

__all__ = ("SimHang", "SeamMissed", "VirtualLoop")


class SimAbort(Exception):
    """The scenario was stopped on purpose (a monitor saw a state the code cannot survive)."""


class SimHang(Exception):
    """The simulated system cannot make progress any more (or exceeded its budgets)."""

    def __init__(self, reason, ticks, vtime):
        super().__init__(f"{reason} (ticks={ticks} vtime={vtime:.3f})")
        self.reason = reason
        self.ticks = ticks
        self.vtime = vtime


class SeamMissed(RuntimeError):
    """Real I/O was attempted on the virtual loop: a seam was not patched."""


class _SeqTimerHandle(events.TimerHandle):
    __slots__ = ("_seq",)

    def __init__(self, when, callback, args, loop, context, seq):
        super().__init__(when, callback, args, loop, context)
        self._seq = seq

    def _key(self):
        return (self._when, self._seq)

    def __lt__(self, other):
        return self._key() < other._key()

    def __le__(self, other):
        return self._key() <= other._key()

    def __gt__(self, other):
        return self._key() > other._key()

    def __ge__(self, other):
        return self._key() >= other._key()

    def __eq__(self, other):
        return self is other

    __hash__ = events.TimerHandle.__hash__


class VirtualLoop(asyncio.BaseEventLoop):
    def __init__(self, start=1000.0, max_ticks=400_000, max_vtime=50_000.0):
        super().__init__()
        self._vtime = float(start)
        self._vstart = float(start)
        self._seq = 0
        self.ticks = 0
        self.max_ticks = max_ticks
        self.max_vtime = max_vtime
        self._clock_resolution = 1e-9
        self.tick_hook = None  # callable(loop) run at the start of every tick
        self.abort_reason = None  # set by World.request_abort(): stop at the next tick

    # -- clock -----------------------------------------------------------------------
    def time(self):
        return self._vtime

    @property
    def elapsed(self):
        return self._vtime - self._vstart

    # -- timers ----------------------------------------------------------------------
    def call_at(self, when, callback, *args, context=None):
        self._check_closed()
        self._seq += 1
        timer = _SeqTimerHandle(when, callback, args, self, context, self._seq)
        heapq.heappush(self._scheduled, timer)
        timer._scheduled = True
        return timer

    def call_later(self, delay, callback, *args, context=None):
        if delay is None:
            raise TypeError("delay must not be None")
        return self.call_at(self._vtime + max(0.0, delay), callback, *args, context=context)

    # -- things that must never be reached ---------------------------------------------
    def _process_events(self, event_list):
        pass

    def _write_to_self(self):
        pass

    def add_reader(self, fd, callback, *args):
        raise SeamMissed("add_reader on virtual loop")

    def add_writer(self, fd, callback, *args):
        raise SeamMissed("add_writer on virtual loop")

    def remove_reader(self, fd):
        return False

    def remove_writer(self, fd):
        return False

    def run_in_executor(self, executor, func, *args):
        raise SeamMissed(f"run_in_executor on virtual loop: {func!r}")

    def add_signal_handler(self, sig, callback, *args):
        raise SeamMissed("add_signal_handler on virtual loop")

    def remove_signal_handler(self, sig):
        return False

    async def shutdown_default_executor(self, timeout=None):
        return None

    # -- the core --------------------------------------------------------------------
    def _run_once(self):
        self.ticks += 1
        if self.ticks > self.max_ticks:
            raise SimHang("tick budget exceeded", self.ticks, self._vtime)
        if self.abort_reason is not None:
            raise SimAbort(self.abort_reason)
        if self.tick_hook is not None:
            self.tick_hook(self)

        # Drop cancelled timers at the head.
        while self._scheduled and self._scheduled[0]._cancelled:
            self._timer_cancelled_count -= 1
            handle = heapq.heappop(self._scheduled)
            handle._scheduled = False

        if not self._ready and not self._stopping:
            if not self._scheduled:
                raise SimHang("nothing ready and no timer pending", self.ticks, self._vtime)
            nxt = self._scheduled[0]._when
            if nxt > self._vtime:
                self._vtime = nxt
                if self._vtime - self._vstart > self.max_vtime:
                    raise SimHang("virtual time budget exceeded", self.ticks, self._vtime)

        end_time = self._vtime
        while self._scheduled:
            handle = self._scheduled[0]
            if handle._when > end_time:
                break
            handle = heapq.heappop(self._scheduled)
            handle._scheduled = False
            if handle._cancelled:
                self._timer_cancelled_count -= 1
                continue
            self._ready.append(handle)

        ntodo = len(self._ready)
        for _ in range(ntodo):
            handle = self._ready.popleft()
            if handle._cancelled:
                continue
            handle._run()
        handle = None

    def _timer_handle_cancelled(self, handle):
        if handle._scheduled:
            self._timer_cancelled_count += 1


def run(coro, loop=None):
    """Run `coro` to completion on a fresh (or given) VirtualLoop and return its result."""
    own = loop is None
    if own:
        loop = VirtualLoop()
    asyncio.set_event_loop(loop)
    try:
        return loop.run_until_complete(coro)
    finally:
        asyncio.set_event_loop(None)
        if own:
            loop.close()
