"""Step-program language: interpreted inside a step thread, calling the real stepup.core.api."""

import hashlib
import json
import os

from .chooser import derive_seed
from stepup.core import api as su_api
from stepup.core.enums import Need
from stepup.core.exceptions import UsageError

from .simproc import ProgExit, ProgramError

__all__ = ("Interp", "load_script_ops", "render_script")

SHEBANG = "#!/usr/bin/env python3"


def render_script(ops) -> str:
    """Text of a script file holding a program."""
    return SHEBANG + "\n" + json.dumps(ops, indent=None, sort_keys=True) + "\n"


def load_script_ops(path):
    with open(path, "rb") as fh:
        raw = fh.read()
    digest = hashlib.sha256(raw).hexdigest()[:16]
    text = raw.decode()
    first, _, rest = text.partition("\n")
    try:
        ops = json.loads(rest)
    except json.JSONDecodeError as exc:
        raise ProgramError(f"script is not a program: {path}: {exc}") from exc
    if not isinstance(ops, list):
        raise ProgramError(f"script is not a program list: {path}")
    return ops, digest


def _subst(obj, env):
    if isinstance(obj, str):
        if "{" in obj:
            for k, v in env.items():
                obj = obj.replace("{" + k + "}", v)
        return obj
    if isinstance(obj, list):
        return [_subst(x, env) for x in obj]
    if isinstance(obj, dict):
        return {k: _subst(v, env) for k, v in obj.items()}
    return obj


class Interp:
    def __init__(self, proc, args):
        self.proc = proc
        self.world = proc.world
        self.fs = proc.world.fs
        self.actor = f"step:{proc.pid}"
        self.vars = {}
        self.base_env = {f"arg{i}": a for i, a in enumerate(args)}

    def log(self, op, outcome):
        self.world.log_event("op", self.proc.pid, self.proc.job_i, op, outcome)

    # ------------------------------------------------------------------------------------
    def run_ops(self, ops, env):
        for i, op in enumerate(ops):
            if op and op[0] == "sleep":
                self._partial_outputs(ops[i + 1 :], env)
            self.run_op(op, env)

    def _partial_outputs(self, later_ops, env):
        """A program that works for a while may create its output files early and complete
        them at the end: one declared output in three exists with provisional content while
        the step sleeps.  Whoever reads it in that window did not read the final file."""
        full_env = {**self.base_env, **env}
        for op in later_ops:
            if not op or op[0] != "write":
                continue
            path = _subst(op, full_env)[1]
            rel = self.fs.rel(path)
            if derive_seed("partial", self.proc.label, rel) % 3:
                continue
            d = os.path.dirname(path)
            if d and not os.path.isdir(d):
                continue
            if os.path.isdir(path):
                continue
            self.fs.write(self.actor, path, f"partial:{rel}\n")
            self.proc.world.count("step.partial_output_written_early")

    def api_call(self, name, func, *args, **kwargs):
        try:
            result = func(*args, **kwargs)
        except UsageError as exc:
            self.log(name, ("err", type(exc).__name__, str(exc)))
            raise
        except Exception as exc:
            self.log(name, ("exc", type(exc).__name__, str(exc)[:300]))
            raise
        self.log(name, ("ok",))
        return result

    def run_op(self, op, env):
        full_env = {**self.base_env, **env}
        op = _subst(op, full_env)
        name = op[0]
        proc = self.proc
        if name == "static":
            self.api_call(("static", tuple(op[1:])), su_api.static, *op[1:])
        elif name == "glob":
            pattern, subs, var = op[1], op[2], op[3]
            ng = self.api_call(("glob", pattern), su_api.glob, pattern, **subs)
            matches = []
            for path in ng.files():
                d = {"f": str(path)}
                m = ng._regex.fullmatch(str(path))
                if m is not None:
                    for k, v in m.groupdict().items():
                        d[k] = str(v)
                matches.append(d)
            self.vars[var] = matches
        elif name == "each":
            for m in self.vars.get(op[1], []):
                self.run_ops(op[2], {**env, **m})
        elif name in ("step", "run", "plan"):
            cmd = op[1]
            kw = dict(op[2]) if len(op) > 2 else {}
            self.declare(name, cmd, kw)
        elif name == "amend":
            kw = op[1]
            self.api_call(("amend", json.dumps(kw, sort_keys=True)), su_api.amend, **kw)
        elif name == "getenv":
            val = self.api_call(("getenv", op[1]), su_api.getenv, op[1])
            proc.envreads.append([op[1], val])
        elif name == "hold":
            with su_api.hold():
                self.log("hold", ("ok",))
                self.run_ops(op[1], env)
            self.log("release", ("ok",))
        elif name == "read":
            data, d = self.fs.read(self.actor, op[1])
            proc.reads.append([self.fs.rel(op[1]), d])
        elif name == "tryread":
            if os.path.isfile(op[1]):
                data, d = self.fs.read(self.actor, op[1])
                proc.reads.append([self.fs.rel(op[1]), d])
            else:
                proc.reads.append([self.fs.rel(op[1]), None])
        elif name == "write":
            rel = self.fs.rel(op[1])
            self.fs.write(self.actor, op[1], proc.gen_content(rel))
            proc.yield_()
        elif name == "aread":
            self.api_call(("amend_inp", op[1]), su_api.amend, inp=[op[1]])
            data, d = self.fs.read(self.actor, op[1])
            proc.reads.append([self.fs.rel(op[1]), d])
        elif name == "areadt":
            # one amend() call for an ordinary input and a file of a static tree
            self.api_call(("amend_inp", op[1], op[2]), su_api.amend, inp=[op[1], op[2]])
            for q in (op[1], op[2]):
                data, d = self.fs.read(self.actor, q)
                proc.reads.append([self.fs.rel(q), d])
        elif name == "reada":
            # late amend: read first (tolerating absence), announce afterwards
            if os.path.isfile(op[1]):
                data, d = self.fs.read(self.actor, op[1])
                proc.reads.append([self.fs.rel(op[1]), d])
            else:
                proc.reads.append([self.fs.rel(op[1]), None])
            if len(op) > 2:
                proc.sleep(float(op[2]))
            self.api_call(("amend_inp_late", op[1]), su_api.amend, inp=[op[1]])
        elif name == "awrite":
            self.api_call(("amend_out", op[1]), su_api.amend, out=[op[1]])
            rel = self.fs.rel(op[1])
            self.fs.write(self.actor, op[1], proc.gen_content(rel))
            proc.yield_()
        elif name == "vwrite":
            self.api_call(("amend_vol", op[1]), su_api.amend, vol=[op[1]])
            rel = self.fs.rel(op[1])
            self.fs.write(self.actor, op[1], proc.gen_content(rel))
            proc.yield_()
        elif name == "sleep":
            proc.sleep(float(op[1]))
        elif name == "exit":
            raise ProgExit(int(op[1]))
        elif name == "ignore_errors":
            try:
                self.run_ops(op[1], env)
            except UsageError:
                pass
        elif name == "info":
            self.api_call(("info",), su_api.get_info)
        elif name == "raw":
            client = su_api.get_rpc_client()
            args = op[2] if len(op) > 2 else []
            args = [proc.job_i if a == "$JOB" else a for a in args]
            try:
                getattr(client.call, op[1])(*args)
                self.log(("raw", op[1]), ("ok",))
            except UsageError as exc:
                self.log(("raw", op[1]), ("err", type(exc).__name__, str(exc)))
                if not (len(op) > 3 and op[3] == "tolerate"):
                    raise
            except Exception as exc:
                self.log(("raw", op[1]), ("exc", type(exc).__name__, str(exc)[:300]))
                if not (len(op) > 3 and op[3] == "tolerate"):
                    raise
        elif name == "rm":
            # a step that removes a file it owns (e.g. cleaning its own temp output)
            self.fs.remove(self.actor, op[1])
            proc.yield_()
        else:
            raise ProgramError(f"unknown op {name!r}")

    def declare(self, kind, cmd, kw):
        kwargs = {}
        for key in ("inp", "out", "vol", "env"):
            if key in kw:
                kwargs[key] = kw[key]
        if "workdir" in kw:
            kwargs["workdir"] = kw["workdir"]
        if "resources" in kw:
            kwargs["resources"] = kw["resources"]
        if kind == "step":
            need = kw.get("need")
            kwargs["need"] = Need[need] if need else Need.DEFAULT
            if kw.get("shell"):
                kwargs["shell"] = True
            if kw.get("env_overrides"):
                kwargs["env_overrides"] = kw["env_overrides"]
            func = su_api.step
        elif kind == "run":
            if kw.get("optional"):
                kwargs["optional"] = True
            if kw.get("shell"):
                kwargs["shell"] = True
            func = su_api.run
        else:
            func = su_api.plan
        self.api_call((kind, cmd), func, cmd, **kwargs)
