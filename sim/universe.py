"""A universe = a world plus the 'user' who edits its tree and starts builds."""

import os
import shutil
import sqlite3
import stat as statmod

from . import dbview
from .chooser import Chooser, derive_seed
from .gen import render
from .simfs import digest_of
from .world import World, director_main

__all__ = ("Universe", "tree_snapshot", "scratch_base", "BASE_ENV")

BASE_ENV = {"PATH": "/usr/bin:/bin", "HOME": "/nonexistent", "LANG": "C"}


def scratch_base():
    base = f"/dev/shm/verif-{os.getpid()}"
    os.makedirs(base, exist_ok=True)
    return base


def tree_snapshot(root, with_dirs=False):
    """path -> (type, digest, mode) for everything outside .stepup."""
    out = {}
    for dirpath, dirnames, filenames in os.walk(root):
        rel = os.path.relpath(dirpath, root)
        if rel == ".":
            rel = ""
        if ".stepup" in dirnames and rel == "":
            dirnames.remove(".stepup")
        dirnames.sort()
        if with_dirs and rel:
            out[rel + "/"] = ("dir", None, None)
        for fn in sorted(filenames):
            p = os.path.join(dirpath, fn)
            r = os.path.join(rel, fn) if rel else fn
            st = os.lstat(p)
            out[r] = ("file", digest_of(p), statmod.S_IMODE(st.st_mode))
    return out


class Universe:
    def __init__(self, root, chooser: Chooser, name="A", monitors=None, env=None):
        self.root = root
        os.makedirs(root, exist_ok=True)
        self.world = World(root, dict(env or BASE_ENV), chooser, name=name, monitors=monitors)
        self.user_files = {}  # relpath -> (text, mode) as last written by the user
        self.results = []

    # -- user edits -------------------------------------------------------------------------
    def user_ops_for(self, proj):
        """The list of SimFS operations that turn the user's files into render(proj)."""
        want = render(proj)
        ops = []
        for path in sorted(self.user_files):
            if path not in want:
                ops.append(("remove", path))
        for path in sorted(want):
            text, mode = want[path]
            old = self.user_files.get(path)
            if old is None or old[0] != text:
                ops.append(("write", path, text, mode))
            elif old[1] != mode:
                ops.append(("chmod", path, mode))
        return ops, want

    def apply_user_ops(self, ops):
        fs = self.world.fs
        cwd = os.getcwd()
        os.chdir(self.root)
        try:
            for op in ops:
                kind = op[0]
                if kind == "remove":
                    path = op[1]
                    if os.path.lexists(path):
                        if os.path.isdir(path) and not os.path.islink(path):
                            fs.rmtree("user", path)
                        else:
                            fs.remove("user", path)
                    self.user_files.pop(path, None)
                    # the user tidies up directories that became empty
                    d = os.path.dirname(path)
                    while d and os.path.isdir(d) and not os.listdir(d):
                        fs.rmdir("user", d)
                        d = os.path.dirname(d)
                elif kind == "write":
                    _, path, text, mode = op
                    d = os.path.dirname(path)
                    if d and not os.path.isdir(d):
                        fs.makedirs("user", d)
                    if os.path.isdir(path) and not os.path.islink(path):
                        fs.rmtree("user", path)
                    old = self.user_files.get(path)
                    if (
                        old is not None
                        and old[1] == mode
                        and len(old[0]) == len(text)
                        and os.path.isfile(path)
                        and not os.path.islink(path)
                        and derive_seed("preserve", path, text) % 4 == 0
                    ):
                        # one same-size edit in four arrives the way rsync -t delivers it:
                        # new inode, old mode and mtime (only the content tells the change)
                        fs.replace_preserving("user", path, text)
                        self.world.count("user.replace_preserving")
                    else:
                        fs.write("user", path, text)
                    cur = statmod.S_IMODE(os.stat(path).st_mode)
                    if cur != mode:
                        fs.chmod("user", path, mode)
                    self.user_files[path] = (text, mode)
                elif kind == "chmod":
                    _, path, mode = op
                    fs.chmod("user", path, mode)
                    self.user_files[path] = (self.user_files[path][0], mode)
                elif kind == "raw_write":
                    # vandalism: not tracked as a user file of the project
                    _, path, text = op
                    d = os.path.dirname(path)
                    if d and not os.path.isdir(d):
                        fs.makedirs("user", d)
                    fs.write("user", path, text)
                elif kind == "raw_replace_same_size":
                    # vandalism as `rsync -t` delivers it: other bytes of the same length under
                    # a new inode, mode and mtime as before
                    path = op[1]
                    with open(path, "rb") as fh:
                        cur_bytes = fh.read()
                    new = bytes((b + 1) % 256 if 32 <= b < 126 else b for b in cur_bytes)
                    if new == cur_bytes:
                        fs.write("user", path, cur_bytes + b"!")
                    else:
                        fs.replace_preserving("user", path, new)
                        self.world.count("user.replace_preserving")
                elif kind == "raw_remove":
                    if os.path.isdir(op[1]) and not os.path.islink(op[1]):
                        fs.rmtree("user", op[1])
                    elif os.path.lexists(op[1]):
                        fs.remove("user", op[1])
                elif kind == "rmtree":
                    if os.path.isdir(op[1]):
                        fs.rmtree("user", op[1])
                elif kind == "mkdir":
                    if not os.path.isdir(op[1]):
                        fs.makedirs("user", op[1])
                elif kind == "rename":
                    fs.rename("user", op[1], op[2])
                else:
                    raise ValueError(kind)
        finally:
            os.chdir(cwd)

    def sync_tree(self, proj):
        ops, want = self.user_ops_for(proj)
        self.apply_user_ops(ops)
        self.world.env = {**BASE_ENV, **{k: v for k, v in proj["env"].items() if v is not None}}
        return ops

    # -- builds -------------------------------------------------------------------------------
    def build(self, cfg, scratch=False, user=None, **kw):
        if scratch:
            shutil.rmtree(os.path.join(self.root, ".stepup"), ignore_errors=True)
        res = self.world.run(lambda w: director_main(w, cfg, user=user), **kw)
        self.results.append(res)
        return res

    # -- observation ----------------------------------------------------------------------------
    def tree(self, with_dirs=False):
        return tree_snapshot(self.root, with_dirs)

    def snapshot(self):
        path = os.path.join(self.root, ".stepup", "graph.db")
        con = sqlite3.connect(path)
        try:
            return dbview.take_snapshot(con)
        finally:
            con.close()

    def projection(self):
        return dbview.projection(self.snapshot())

    def destroy(self):
        shutil.rmtree(self.root, ignore_errors=True)
