"""Planned faults, executed deterministically by a monitor-like injector."""

import asyncio
import os
import random
import signal

from .monitors import COL, Monitor

__all__ = ("FaultInjector", "gen_faults")


def gen_faults(rng: random.Random, kinds, nmax=2):
    """A list of planned faults for one build."""
    out = []
    if not kinds:
        return out
    for _ in range(rng.randint(0, nmax)):
        kind = rng.choice(kinds)
        f = {"kind": kind, "nth_cmd": rng.randint(1, 6), "delay_ms": rng.choice([0, 5, 30, 120, 400])}
        if kind == "edit_input_during":
            f["action"] = rng.choice(["modify", "modify", "delete"])
            f["which"] = rng.randint(0, 5)
        out.append(f)
    return out


class FaultInjector(Monitor):
    name = "faults"

    def __init__(self, plans_by_build):
        """plans_by_build: {build_no (1-based within the world): [fault dicts]}"""
        super().__init__()
        self.plans_by_build = plans_by_build
        self.ncmd = 0
        self.active = []
        self.fired = []
        self.edits = []  # (log seq, path, action, victim step label)

    def on_build_start(self, world):
        self.ncmd = 0
        self.active = [dict(f) for f in self.plans_by_build.get(world.build_no, [])]

    def on_cmd_start(self, world, proc):
        self.ncmd += 1
        for f in self.active:
            if f.get("done") or f["nth_cmd"] != self.ncmd:
                continue
            f["done"] = True
            world.loop.call_later(f["delay_ms"] / 1000.0, self._fire, world, f, proc)

    def _fire(self, world, f, proc):
        kind = f["kind"]
        if world.loop is None:
            return
        if kind == "edit_input_during":
            self._edit_input(world, f, proc)
        elif kind == "kill_step":
            if proc.state != "done":
                proc.kill(9)
                world.count("fault.kill_step")
                self.fired.append(kind)
        elif kind == "drain":
            if world.handler is not None:
                world.handler.scheduler.draining = True
                world.log_event("fault", "drain")
                world.count("fault.drain")
                self.fired.append(kind)
        elif kind == "interrupt":
            if world.handler is not None:
                world.handler.interrupt(signal.SIGINT)
                world.log_event("fault", "interrupt")
                world.count("fault.interrupt")
                self.fired.append(kind)

    def _edit_input(self, world, f, proc):
        if proc.state == "done":
            world.count("fault_missed.edit_after_exit")
            return
        snap = world.prev_snap
        if snap is None:
            return
        sid = None
        for i, (k, lab, c, d) in snap.nodes.items():
            if k == "step" and lab == proc.label:
                sid = i
        if sid is None:
            return
        inputs = sorted(
            snap.nodes[src][1]
            for idep, (src, snk) in snap.deps.items()
            if snk == sid and src in snap.files and not snap.nodes[src][3]
        )
        # never vandalise scripts: a changed program text is not an "input change" fault
        inputs = [p for p in inputs if not p.endswith(".py")]
        # A file whose content StepUp has not recorded yet (UNCONFIRMED: the confirming hash
        # job is still to run) has no reference to compare with: a modification between a
        # step's late read and that first hash is undetectable for any hash-based tool.
        state_by_label = {snap.nodes[i][1]: st for i, (st, hj) in snap.files.items() if i in snap.nodes}
        inputs = [p for p in inputs if state_by_label.get(p) != 12]
        masks = f.get("masks", ())
        if "edit_built_input" in masks:
            static_states = (12, 13, 14)
            by_label = {snap.nodes[i][1]: st for i, (st, hj) in snap.files.items() if i in snap.nodes}
            inputs = [p for p in inputs if by_label.get(p) in static_states]
        if "edit_shared_input" in masks:
            running = {i for i, row in snap.steps.items() if row[COL["state"]] == 22 and i != sid}
            shared = set()
            for idep, (src, snk) in snap.deps.items():
                if snk in running and src in snap.files:
                    shared.add(snap.nodes[src][1])
            inputs = [p for p in inputs if p not in shared]
        if not inputs:
            world.count("fault_missed.no_input")
            return
        path = inputs[f["which"] % len(inputs)]
        ap = os.path.join(world.root, path)
        if not os.path.isfile(ap):
            world.count("fault_missed.input_absent")
            return
        world.uid = getattr(world, "uid", 0) + 1
        cwd = os.getcwd()
        os.chdir(world.root)
        try:
            if f["action"] == "delete":
                world.fs.remove("user", path)
            else:
                world.fs.write("user", path, f"vandal:{path}:{world.uid}:{len(world.log)}\n")
        finally:
            os.chdir(cwd)
        world.count("fault.edit_input_during." + f["action"])
        self.fired.append("edit_input_during")
        self.edits.append((len(world.log), path, f["action"], proc.label, proc.pid))
