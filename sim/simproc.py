"""Simulated step processes: baton-passed threads that run the real `stepup.core.api`.

Exactly one thread runs at any time.  The loop thread hands the baton to a step thread with
`resume()` and blocks until that thread parks again (sleep, blocking recv, after a file-system
operation, exit).  Which proc runs next is decided by the loop's timer order only.
"""

import hashlib
import json
import os
import shlex
import threading
import traceback

from path import Path

from stepup.core import api as su_api
from stepup.core import run as su_run
from stepup.core.enums import Need
from stepup.core.exceptions import UsageError
from stepup.core.outcome import ChildOutcome, ResourceUsage
from stepup.core.rpc import SocketSyncRPCClient

__all__ = ("Killed", "SimProc", "SimWorker", "parse_compact", "ProgramError")

SHEBANG = "#!/usr/bin/env python3"


class Killed(BaseException):
    pass


class ProgramError(Exception):
    pass


class ProgExit(BaseException):
    def __init__(self, rc):
        self.rc = rc


class SimWorker(su_run.Worker):
    """`Worker` for a simulated process."""

    def __init__(self, proc, job_i):
        super().__init__(job_i=job_i)
        self.proc = proc

    def interrupt(self, sig):
        self.proc.kill(int(sig))

    def suspend(self):
        pass

    def resume(self):
        pass


def parse_compact(command: str):
    """`NAME k=v k=v ...` -> list of ops."""
    parts = shlex.split(command)
    ops = []
    table = {
        "r": "read",
        "w": "write",
        "a": "aread",
        "at": "areadt",
        "la": "reada",
        "ao": "awrite",
        "av": "vwrite",
        "e": "getenv",
        "R": "tryread",
    }
    for tok in parts[1:]:
        k, sep, v = tok.partition("=")
        if not sep:
            continue
        if k == "s":
            ops.append(["sleep", float(v)])
        elif k == "x":
            ops.append(["exit", int(v)])
        elif k == "at":
            ops.append(["areadt", *v.split("::")])
        elif k in table:
            ops.append([table[k], v])
        else:
            raise ProgramError(f"unknown token {tok!r}")
    return ops


class SimProc:
    counter = 0

    def __init__(self, world, command, shell, env, cwd, run):
        SimProc.counter += 1
        self.world = world
        self.loop = world.loop
        self.command = command
        self.shell = shell
        self.env = dict(env)
        self.cwd = os.path.normpath(os.path.join(world.root, str(cwd)))
        self.run_obj = run
        self.label = run.step.label if run is not None else command
        self.job_i = run.job_i if run is not None else 0
        self.pid = world.next_pid()
        self.amend_history = {"inp": set(), "env": set(), "out": set(), "vol": set()}
        self.hold_state = su_api._HoldState()
        self.client = None
        self._go = threading.Semaphore(0)
        self.future = self.loop.create_future()
        self.killed = None
        self.state = "new"
        self.wake_handle = None
        self.recv_sock = None
        self.request = None
        self.stderr = []
        self.stdout = []
        self.reads = []
        self.envreads = []
        self.nwrites = 0
        self.script_digest = ""
        self.thread = None
        self.t_start = None
        self.die_after_sends = None  # fault: die right after the n-th complete request
        self.die_goodbye = False  # ... after sending the client's close request as well

    # -- loop side -------------------------------------------------------------------------
    async def run(self):
        self.thread = threading.Thread(target=self._main, name=f"simproc-{self.pid}", daemon=True)
        self.thread.start()
        self.world.procs.add(self)
        self.t_start = self.loop.time()
        d = self.world.chooser.delay("proc.launch", 0, 40)
        self.wake_handle = self.loop.call_later(d, self.resume)
        self.world.log_event("cmd_start", self.pid, self.job_i, self.label)
        for m in self.world.monitors:
            m.on_cmd_start(self.world, self)
        try:
            rc = await self.future
        finally:
            self.world.procs.discard(self)
        wtime = self.loop.time() - self.t_start
        self.world.log_event("cmd_end", self.pid, self.job_i, self.label, rc)
        for m in self.world.monitors:
            m.on_cmd_end(self.world, self, rc)
        return ChildOutcome(
            rc, "".join(self.stdout), "".join(self.stderr), ResourceUsage(0.0, 0.0, wtime)
        )

    def resume(self):
        if self.state == "done":
            return
        w = self.world
        if w.running_proc is not None:
            raise RuntimeError("two procs running at once")
        self.wake_handle = None
        self.recv_sock = None
        w.running_proc = self
        saved = w.swap_in(self)
        self.state = "running"
        self._go.release()
        w.back.acquire()
        w.swap_out(self, saved)
        w.running_proc = None
        req = self.request
        kind = req[0]
        if kind == "exit":
            self.state = "done"
            if not self.future.done():
                self.future.set_result(req[1])
            return
        self.state = "parked"
        if self.killed is not None:
            # killed while it was running is impossible (single baton); killed flag set
            # by the proc's own fault: continue to kill path
            self.wake_handle = self.loop.call_soon(self.resume)
            return
        if kind == "sleep":
            self.wake_handle = self.loop.call_later(req[1], self.resume)
        elif kind == "yield":
            d = w.chooser.delay("proc.yield", 0, 2)
            self.wake_handle = self.loop.call_later(d, self.resume)
        elif kind == "recv":
            sock, timeout = req[1], req[2]
            if sock._buf or sock._eof:
                self.wake_handle = self.loop.call_soon(self.resume)
            else:
                self.recv_sock = sock
                sock._waiter = self
                if timeout is not None and timeout > 0:
                    self.wake_handle = self.loop.call_later(timeout, self._recv_timeout)
        else:
            raise RuntimeError(f"unknown park request {req!r}")

    def wake_from_recv(self):
        if self.wake_handle is not None:
            self.wake_handle.cancel()
            self.wake_handle = None
        self.recv_sock = None
        # Resume synchronously: the data just arrived on the loop thread.
        self.resume()

    def _recv_timeout(self):
        self.wake_handle = None
        if self.recv_sock is not None:
            self.recv_sock._waiter = None
            self.recv_sock = None
        self.timed_out = True
        self.resume()

    def kill(self, sig=9):
        if self.state == "done" or self.killed is not None:
            return
        self.killed = sig
        self.world.log_event("kill", self.pid, self.job_i, sig)
        if self.state == "running":
            return  # it will notice at its next park point
        if self.wake_handle is not None:
            self.wake_handle.cancel()
            self.wake_handle = None
        if self.recv_sock is not None:
            self.recv_sock._waiter = None
            self.recv_sock = None
        self.wake_handle = self.loop.call_soon(self.resume)

    def force_finish(self):
        """Teardown of a world (hang/crash abort): let the thread unwind, off the loop."""
        if self.state == "done":
            return
        self.killed = self.killed or 9
        if self.wake_handle is not None:
            self.wake_handle.cancel()
            self.wake_handle = None
        w = self.world
        saved = w.swap_in(self)
        self._go.release()
        w.back.acquire()
        w.swap_out(self, saved)
        self.state = "done"

    # -- thread side -------------------------------------------------------------------------
    def park(self, request):
        self.request = request
        self.world.back.release()
        self._go.acquire()
        if self.killed is not None:
            raise Killed()

    def wait_recv(self, sock, timeout):
        self.timed_out = False
        self.park(("recv", sock, timeout))
        if self.timed_out:
            self.timed_out = False
            raise TimeoutError("timed out")

    def sleep(self, dt):
        self.park(("sleep", float(dt)))

    def yield_(self):
        self.park(("yield",))

    def get_client(self):
        if self.client is None:
            path = self.env.get("STEPUP_DIRECTOR_SOCKET")
            self.client = SocketSyncRPCClient(path, server_log_description="sim")
        return self.client

    def _main(self):
        self._go.acquire()
        rc = 1
        try:
            if self.killed is not None:
                raise Killed()
            rc = self._run_program()
        except Killed:
            rc = -int(self.killed or 9)
        except ProgExit as exc:
            rc = exc.rc
        except BaseException as exc:  # noqa: BLE001
            self.stderr.append(f"{type(exc).__name__}: {exc}\n")
            if not isinstance(exc, (UsageError, OSError, ProgramError)):
                self.stderr.append(traceback.format_exc())
                self.world.note_proc_exception(self, exc, traceback.format_exc())
            rc = 1
        finally:
            try:
                if self.client is not None and getattr(self.client, "_socket", None) is not None:
                    self.client._socket.kill()
            except BaseException:  # noqa: BLE001
                pass
            self.request = ("exit", rc)
            self.world.back.release()

    def _run_program(self):
        from .progs import Interp, load_script_ops

        parts = shlex.split(self.command)
        if not parts:
            raise ProgramError("empty command")
        first = parts[0]
        if self.shell:
            ops = parse_compact(self.command)
        elif first.endswith(".py"):
            msg = su_run._check_executable(Path(self.cwd) / Path(first), shebang=SHEBANG)
            if msg is not None:
                self.stderr.append(msg + "\n")
                return 1
            ops, digest = load_script_ops(os.path.join(self.cwd, first))
            self.script_digest = digest
        else:
            msg = su_run._check_executable(Path(self.cwd) / Path(first))
            if msg is not None:
                self.stderr.append(msg + "\n")
                return 1
            ops = parse_compact(self.command)
        interp = Interp(self, parts[1:])
        interp.run_ops(ops, {})
        return 0

    # content of generated files -----------------------------------------------------------
    def gen_content(self, relpath):
        self.nwrites += 1
        blob = json.dumps(
            [self.label, self.script_digest, self.reads, self.envreads, self.nwrites, relpath],
            sort_keys=True,
        )
        return "gen:" + hashlib.sha256(blob.encode()).hexdigest() + "\n"


def need_from(value):
    if value is None:
        return Need.DEFAULT
    return Need[value]
