"""Reading the workflow database: per-commit snapshots and canonical projections."""

import hashlib
import json
import sqlite3

from stepup.core.enums import FileState, Need, StepState

__all__ = ("Snapshot", "take_snapshot", "projection", "open_ro", "FS", "SS")

FS = {s.value: s.name for s in FileState}
SS = {s.value: s.name for s in StepState}
NEED = {n.value: n.name for n in Need}

STEP_COLS = (
    "node",
    "state",
    "need",
    "duration",
    "deferred",
    "defer_count",
    "shell",
    "env_overrides",
    "_safe",
    "_check_safe",
    "_holding",
    "_safe_ignoring_hold",
    "_implied_need",
    "_tail_time",
    "_check_after",
    "_has_hash",
    "_ready",
    "_check_ready",
)


class Snapshot:
    """Plain-data copy of the persistent tables at one instant."""

    __slots__ = (
        "nodes",
        "deps",
        "files",
        "steps",
        "step_hash",
        "dyn",
        "env",
        "nglob",
        "res",
        "temp",
        "_digest",
    )

    def __init__(self):
        self._digest = None

    def digest(self) -> str:
        if self._digest is None:
            h = hashlib.sha256()
            for name in ("nodes", "deps", "steps", "dyn", "env", "nglob", "res"):
                h.update(name.encode())
                h.update(repr(sorted(getattr(self, name).items())).encode())
            # mtime and inode of stored file hashes are not part of the state
            # (explained step hashes embed file hashes as well)
            h.update(
                repr(sorted((i, _step_digests(hj)) for i, hj in self.step_hash.items())).encode()
            )
            h.update(
                repr(sorted((i, st, _hash_core(hj)) for i, (st, hj) in self.files.items())).encode()
            )
            self._digest = h.hexdigest()[:20]
        return self._digest

    # convenience -------------------------------------------------------------------------
    def key(self, i):
        n = self.nodes.get(i)
        if n is None:
            return f"?{i}"
        return f"{n[0]}:{n[1]}"

    def attached_reachable(self):
        """Node ids reachable from the root over creator links (independent of the flag)."""
        children = {}
        for i, (kind, label, creator, detached) in self.nodes.items():
            if creator is not None and creator != i:
                children.setdefault(creator, []).append(i)
        seen = {1} if 1 in self.nodes else set()
        todo = list(seen)
        while todo:
            c = todo.pop()
            for ch in children.get(c, ()):
                if ch not in seen:
                    seen.add(ch)
                    todo.append(ch)
        return seen


def take_snapshot(con: sqlite3.Connection, with_temp=False) -> Snapshot:
    s = Snapshot()
    ex = con.execute
    s.nodes = {r[0]: (r[1], r[2], r[3], r[4]) for r in ex("SELECT i, kind, label, creator, detached FROM node")}
    s.deps = {r[0]: (r[1], r[2]) for r in ex("SELECT i, source, sink FROM dependency")}
    s.files = {r[0]: (r[1], r[2]) for r in ex("SELECT node, state, hash FROM file")}
    cols = ", ".join(STEP_COLS)
    s.steps = {r[0]: r for r in ex(f"SELECT {cols} FROM step")}
    s.step_hash = {r[0]: r[1] for r in ex("SELECT node, hash FROM step_hash")}
    s.dyn = {r[0]: 1 for r in ex("SELECT i FROM dynamic_dep")}
    s.env = {(r[0], r[1]): (r[2], r[3]) for r in ex("SELECT node, name, value, dynamic FROM env_var")}
    s.nglob = {r[0]: (r[1], r[2], r[3], r[4]) for r in ex("SELECT i, node, pattern, regex, data FROM nglob")}
    s.res = {(r[0], r[1]): r[2] for r in ex("SELECT node, name, units FROM step_resource")}
    s.temp = None
    if with_temp:
        t = {}
        try:
            t["need_count"] = {
                (r[0], r[1]): r[2]
                for r in ex("SELECT implied_need, succeeded, n FROM step_need_count")
            }
        except sqlite3.Error:
            t["need_count"] = None
        try:
            t["avail"] = {r[0]: r[1] for r in ex("SELECT name, units FROM available_resource")}
        except sqlite3.Error:
            t["avail"] = None
        try:
            t["target_path"] = [r[0] for r in ex("SELECT path FROM target_path")]
            t["target_dir"] = [r[0] for r in ex("SELECT path FROM target_dir")]
        except sqlite3.Error:
            t["target_path"] = None
            t["target_dir"] = None
        s.temp = t
    return s


def open_ro(path):
    con = sqlite3.connect(f"file:{path}?mode=ro", uri=True)
    return con


def _hash_core(hash_json):
    """(digest, mode, size) of a stored FileHash JSON, or None."""
    if hash_json is None:
        return None
    try:
        d = json.loads(hash_json)
    except (TypeError, ValueError):
        return ("?",)
    if isinstance(d, dict):
        return (d.get("digest"), d.get("mode"), d.get("size"))
    if isinstance(d, list):
        # [digest, mode, mtime, size, inode]
        return (d[0], d[1], d[3]) if len(d) >= 4 else tuple(d)
    return (d,)


def _step_digests(hash_json):
    if hash_json is None:
        return None
    try:
        d = json.loads(hash_json)
    except (TypeError, ValueError):
        return ("?",)
    if isinstance(d, dict):
        return (d.get("inp_digest"), d.get("out_digest"))
    if isinstance(d, list):
        return tuple(d[:2])
    return (d,)


def projection(snap: Snapshot) -> dict:
    """Canonical, id-free description of the attached part of the graph.

    Returns {"nodes": {key: {...}}, "detached": [keys]}.
    Detached nodes are listed by key only.
    """
    nodes = snap.nodes
    key = snap.key
    sources = {}
    sinks = {}
    for idep, (src, snk) in snap.deps.items():
        dyn = idep in snap.dyn
        sources.setdefault(snk, []).append((src, dyn))
        sinks.setdefault(src, []).append((snk, dyn))
    products = {}
    for i, (kind, label, creator, detached) in nodes.items():
        if creator is not None and creator != i:
            products.setdefault(creator, []).append(i)

    def ref(i):
        k = key(i)
        return f"({k})" if nodes[i][3] else k

    out = {}
    detached_keys = []
    for i, (kind, label, creator, detached) in nodes.items():
        if detached:
            detached_keys.append(key(i))
            continue
        d = {"kind": kind}
        if creator is not None and creator != i:
            d["creator"] = ref(creator)
        d["products"] = sorted(ref(p) for p in products.get(i, ()))
        d["sources"] = sorted((ref(s), bool(dy)) for s, dy in sources.get(i, ()))
        d["sinks"] = sorted((ref(s), bool(dy)) for s, dy in sinks.get(i, ()))
        if kind == "file":
            st, hj = snap.files[i]
            d["state"] = FS.get(st, st)
            d["hash"] = _hash_core(hj)
        elif kind == "step":
            row = snap.steps[i]
            rd = dict(zip(STEP_COLS, row, strict=True))
            d["state"] = SS.get(rd["state"], rd["state"])
            d["need"] = NEED.get(rd["need"], rd["need"])
            d["implied_need"] = NEED.get(rd["_implied_need"], rd["_implied_need"])
            d["shell"] = rd["shell"]
            d["env_overrides"] = rd["env_overrides"]
            d["deferred"] = rd["deferred"]
            d["env"] = sorted((name, dyn) for (n, name), (val, dyn) in snap.env.items() if n == i)
            d["nglob"] = sorted(
                (pat, _nglob_canon(data)) for (n, pat, rx, data) in snap.nglob.values() if n == i
            )
            d["resources"] = sorted((name, u) for (n, name), u in snap.res.items() if n == i)
            if rd["state"] == StepState.SUCCEEDED.value:
                d["digests"] = _step_digests(snap.step_hash.get(i))
            d["has_hash"] = i in snap.step_hash
        out[key(i)] = d
    return {"nodes": out, "detached": sorted(detached_keys)}


def _nglob_canon(data):
    try:
        d = json.loads(data)
    except (TypeError, ValueError):
        return data
    return json.dumps(d, sort_keys=True)


def diff_projections(a: dict, b: dict, ignore_detached=True, limit=12) -> list[str]:
    """Human-readable differences between two projections."""
    out = []
    na, nb = a["nodes"], b["nodes"]
    for k in sorted(set(na) | set(nb)):
        if k not in na:
            out.append(f"only in B: {k} {_brief(nb[k])}")
        elif k not in nb:
            out.append(f"only in A: {k} {_brief(na[k])}")
        elif na[k] != nb[k]:
            for f in sorted(set(na[k]) | set(nb[k])):
                if na[k].get(f) != nb[k].get(f):
                    out.append(f"{k}.{f}: A={na[k].get(f)!r} B={nb[k].get(f)!r}")
        if len(out) >= limit:
            out.append("...")
            break
    if not ignore_detached and a["detached"] != b["detached"]:
        out.append(f"detached: A={a['detached']} B={b['detached']}")
    return out


def _brief(d):
    return {k: d[k] for k in ("kind", "state", "creator") if k in d}
