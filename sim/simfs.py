"""File-system layer: every mutation of the project tree goes through here.

Each operation performs the real syscall on tmpfs, stamps a controlled mtime, appends to the
world's event log and emits inotify events to the fake inotify instances of the world.
"""

import asyncio
import hashlib
import os
import pathlib
import shutil
import stat as statmod

from asyncinotify import Mask

__all__ = ("SimFS", "FakeInotify", "digest_of")

EPOCH_NS = 1_600_000_000 * 10**9


def digest_of(path) -> str | None:
    """Short content digest of a file; 'DIR' for a directory; None when absent."""
    try:
        st = os.stat(path)
    except OSError:
        return None
    if statmod.S_ISDIR(st.st_mode):
        return "DIR"
    try:
        with open(path, "rb") as fh:
            return hashlib.sha256(fh.read()).hexdigest()[:16]
    except OSError:
        return None


class SimFS:
    def __init__(self, world):
        self.world = world
        self.root = world.root  # absolute, no trailing slash
        self._last_ns = 0
        self.nops = 0
        self.mtime_fault = None  # None | "back" | "future"
        self.writes = 0

    # -- helpers ---------------------------------------------------------------------
    def rel(self, path) -> str:
        ap = os.path.normpath(os.path.join(os.getcwd(), os.fspath(path)))
        if ap == self.root:
            return "."
        if ap.startswith(self.root + "/"):
            return ap[len(self.root) + 1 :]
        return ap

    def _abs(self, path) -> str:
        return os.path.normpath(os.path.join(os.getcwd(), os.fspath(path)))

    def _stamp(self, ap):
        t = EPOCH_NS + int(self.world.vtime() * 1e9)
        t = max(t, self._last_ns + 1_000_000)
        self._last_ns = t
        eff = t
        if self.mtime_fault == "back":
            eff = t - 3600 * 10**9
        elif self.mtime_fault == "future":
            eff = t + 10 * 365 * 86400 * 10**9
        os.utime(ap, ns=(eff, eff))

    def _log(self, actor, op, relpath, digest=None, extra=None):
        self.nops += 1
        self.world.log_event("fs", actor, op, relpath, digest, extra)
        for listener in self.world.fs_listeners:
            listener(actor, op, relpath, digest)
        self.world.on_fsop(self.nops, actor, op, relpath)

    def _emit(self, dir_ap, name, mask, cookie=0):
        self.world.emit_inotify(dir_ap, name, mask, cookie)

    # -- operations --------------------------------------------------------------------
    def write(self, actor, path, content):
        ap = self._abs(path)
        if isinstance(content, str):
            content = content.encode()
        existed = os.path.lexists(ap)
        parent, name = os.path.split(ap)
        with open(ap, "wb") as fh:
            fh.write(content)
        self._stamp(ap)
        self.writes += 1
        if not existed:
            self._emit(parent, name, Mask.CREATE)
        self._emit(parent, name, Mask.MODIFY)
        self._emit(parent, name, Mask.CLOSE_WRITE)
        self._log(actor, "write", self.rel(ap), hashlib.sha256(content).hexdigest()[:16])

    def replace_preserving(self, actor, path, content):
        """Replace a file as `rsync -t` or `cp -p new tmp && mv tmp path` do.

        The new content arrives under a temporary name in the same directory, gets the mode
        and the time stamps of the file it replaces and is renamed over it: afterwards the
        path has a new inode and possibly the same size, with mode and mtime unchanged.
        """
        ap = self._abs(path)
        if isinstance(content, str):
            content = content.encode()
        st = os.stat(ap)
        parent, name = os.path.split(ap)
        tname = f".{name}.tmp~"
        tmp = os.path.join(parent, tname)
        with open(tmp, "wb") as fh:
            fh.write(content)
        os.chmod(tmp, statmod.S_IMODE(st.st_mode))
        os.utime(tmp, ns=(st.st_atime_ns, st.st_mtime_ns))
        os.rename(tmp, ap)
        self.writes += 1
        self._emit(parent, tname, Mask.CREATE)
        self._emit(parent, tname, Mask.MODIFY)
        self._emit(parent, tname, Mask.CLOSE_WRITE)
        self._emit(parent, tname, Mask.ATTRIB)
        cookie = self.world.next_cookie()
        self._emit(parent, tname, Mask.MOVED_FROM, cookie)
        self._emit(parent, name, Mask.MOVED_TO, cookie)
        self._log(actor, "write", self.rel(ap), hashlib.sha256(content).hexdigest()[:16], "replace-preserving")

    def touch_same(self, actor, path):
        """Rewrite a file with its own content (new mtime, same bytes)."""
        ap = self._abs(path)
        with open(ap, "rb") as fh:
            content = fh.read()
        self.write(actor, path, content)

    def remove(self, actor, path):
        ap = self._abs(path)
        d = digest_of(ap)
        os.remove(ap)
        parent, name = os.path.split(ap)
        self._emit(parent, name, Mask.DELETE)
        self._log(actor, "remove", self.rel(ap), d)

    def mkdir(self, actor, path):
        ap = self._abs(path)
        os.mkdir(ap)
        parent, name = os.path.split(ap)
        self._emit(parent, name, Mask.CREATE | Mask.ISDIR)
        self._log(actor, "mkdir", self.rel(ap))

    def makedirs(self, actor, path):
        """mkdir -p, one logged mkdir per created level."""
        ap = self._abs(path)
        todo = []
        cur = ap
        while not os.path.isdir(cur):
            todo.append(cur)
            cur = os.path.dirname(cur)
            if cur in ("", "/"):
                break
        for d in reversed(todo):
            if os.path.lexists(d) and not os.path.isdir(d):
                raise FileExistsError(17, "File exists", d)
            self.mkdir(actor, d)

    def rmdir(self, actor, path):
        ap = self._abs(path)
        ino = os.stat(ap).st_ino
        os.rmdir(ap)
        parent, name = os.path.split(ap)
        self.world.inotify_dir_deleted(ino)
        self._emit(parent, name, Mask.DELETE | Mask.ISDIR)
        self._log(actor, "rmdir", self.rel(ap))

    def rmtree(self, actor, path):
        """rm -rf: children first, each as its own logged operation."""
        ap = self._abs(path)
        for entry in sorted(os.listdir(ap)):
            p = os.path.join(ap, entry)
            if os.path.isdir(p) and not os.path.islink(p):
                self.rmtree(actor, p)
            else:
                self.remove(actor, p)
        self.rmdir(actor, ap)

    def rename(self, actor, src, dst):
        sap, dap = self._abs(src), self._abs(dst)
        isdir = os.path.isdir(sap) and not os.path.islink(sap)
        ino = os.stat(sap).st_ino
        os.rename(sap, dap)
        cookie = self.world.next_cookie()
        sp, sn = os.path.split(sap)
        dp, dn = os.path.split(dap)
        extra = Mask.ISDIR if isdir else Mask(0)
        self._emit(sp, sn, Mask.MOVED_FROM | extra, cookie)
        self._emit(dp, dn, Mask.MOVED_TO | extra, cookie)
        if isdir:
            self.world.inotify_dir_moved(ino)
        self._log(actor, "rename", self.rel(sap), None, self.rel(dap))

    def chmod(self, actor, path, mode):
        ap = self._abs(path)
        os.chmod(ap, mode)
        parent, name = os.path.split(ap)
        self._emit(parent, name, Mask.ATTRIB)
        self._log(actor, "chmod", self.rel(ap), None, oct(mode))

    def read(self, actor, path):
        ap = self._abs(path)
        with open(ap, "rb") as fh:
            data = fh.read()
        d = hashlib.sha256(data).hexdigest()[:16]
        self.world.log_event("read", actor, self.rel(ap), d)
        return data, d


class _FakeWatch:
    __slots__ = ("inotify", "path", "mask", "wd", "ino", "alive")

    def __init__(self, inotify, path, mask, wd, ino):
        self.inotify = inotify
        self.path = path
        self.mask = mask
        self.wd = wd
        self.ino = ino
        self.alive = True


class _FakeEvent:
    __slots__ = ("watch", "mask", "cookie", "name")

    def __init__(self, watch, mask, cookie, name):
        self.watch = watch
        self.mask = mask
        self.cookie = cookie
        self.name = name

    @property
    def path(self):
        if self.name:
            return self.watch.path / self.name
        return self.watch.path

    def __repr__(self):
        return f"<FakeEvent {self.path} {self.mask!r}>"


class FakeInotify:
    """Drop-in for `asyncinotify.Inotify` as used by `stepup.core.watcher`."""

    def __init__(self, *args, **kwargs):
        from .world import World

        w = World.current
        self._world = w
        self._loop = asyncio.get_running_loop()
        self._queue = asyncio.Queue()
        self._by_ino = {}
        self._wd = 0
        self._next_time = 0.0
        self._closed = False
        self.nqueued = 0
        self.ndelivered = 0
        w.inotifies.append(self)

    def add_watch(self, path, mask):
        p = pathlib.Path(path)
        st = os.stat(p)  # raises like inotify_add_watch (ENOENT)
        if not statmod.S_ISDIR(st.st_mode):
            # StepUp only watches directories
            pass
        w = self._by_ino.get(st.st_ino)
        if w is not None and w.alive:
            w.mask = mask
            return w
        self._wd += 1
        w = _FakeWatch(self, p, mask, self._wd, st.st_ino)
        self._by_ino[st.st_ino] = w
        return w

    def rm_watch(self, watch):
        if watch.alive:
            watch.alive = False
            self._by_ino.pop(watch.ino, None)
            self._enqueue(watch, Mask.IGNORED, 0, None, force=True)

    async def get(self):
        ev = await self._queue.get()
        self.ndelivered += 1
        return ev

    def close(self):
        self._closed = True
        if self in self._world.inotifies:
            self._world.inotifies.remove(self)

    def __enter__(self):
        return self

    def __exit__(self, *a):
        self.close()

    # -- called by the world ------------------------------------------------------------
    def _enqueue(self, watch, mask, cookie, name, force=False):
        if self._closed:
            return
        if not force and not (watch.mask & mask & ~Mask.ISDIR):
            return
        ev = _FakeEvent(watch, mask, cookie, None if name is None else pathlib.Path(name))
        ch = self._world.chooser
        t = max(self._loop.time(), self._next_time) + ch.delay("inotify.latency", 0, 20)
        self._next_time = t
        self.nqueued += 1
        self._loop.call_at(t, self._queue.put_nowait, ev)

    def pending(self):
        return self.nqueued - self.ndelivered

    def emit(self, dir_ino, name, mask, cookie):
        w = self._by_ino.get(dir_ino)
        if w is not None and w.alive:
            self._enqueue(w, mask, cookie, name)

    def dir_deleted(self, ino):
        w = self._by_ino.get(ino)
        if w is not None and w.alive:
            self._enqueue(w, Mask.DELETE_SELF, 0, None)
            w.alive = False
            self._by_ino.pop(ino, None)
            self._enqueue(w, Mask.IGNORED, 0, None, force=True)

    def dir_moved(self, ino):
        w = self._by_ino.get(ino)
        if w is not None and w.alive:
            self._enqueue(w, Mask.MOVE_SELF, 0, None)
