"""One simulated universe: a project directory, its director lifetimes, its event log."""

import asyncio
import hashlib
import logging
import os
import shutil
import threading

from path import Path

from . import seams, vloop
from .chooser import Chooser
from .dbview import take_snapshot
from .simfs import SimFS
from .simnet import SimNet

__all__ = ("World", "BuildResult", "Universe")

SOCKET_PATH = "/sim/sockets/director"


class BuildResult:
    def __init__(self):
        self.returncode = None  # ReturnCode or None
        self.exception = None  # exception escaping serve()
        self.hang = None  # SimHang
        self.aborted = None  # reason, when a monitor stopped the scenario (see World.request_abort)
        self.ticks = 0
        self.vtime = 0.0
        self.log_start = 0
        self.log_end = 0
        self.ncommits = 0
        self.harness_error = None
        self.error_records = []

    @property
    def rc_value(self):
        return None if self.returncode is None else self.returncode.value

    @property
    def ok(self):
        return self.exception is None and self.hang is None and self.harness_error is None and self.aborted is None


class ErrorCapture(logging.Handler):
    def __init__(self):
        super().__init__(level=logging.ERROR)
        self.records = []

    def emit(self, record):
        try:
            msg = record.getMessage()
        except Exception:  # noqa: BLE001
            msg = str(record.msg)
        self.records.append((record.name, record.levelname, msg))


class World:
    current = None

    def __init__(self, root, env, chooser: Chooser, name="A", monitors=None):
        self.root = os.path.abspath(root)
        self.name = name
        self.env = dict(env)  # the director's (and hence the steps' base) environment
        self.chooser = chooser
        self.log = []
        self.fs = SimFS(self)
        self.procs = set()
        self.running_proc = None
        self.back = threading.Semaphore(0)
        self.inotifies = []
        self._cookie = 0
        self._pid = 100
        self.loop = None
        self.clock = 1000.0
        self.net = None
        self.monitors = list(monitors or [])
        self.commit_no = 0
        self.stmt_no = 0
        self.prev_snap = None
        self.db = None
        self.handler = None  # DirectorHandler of the live director
        self.fs_actor_override = None
        self.crash_hook = None  # callable(kind, n, info)
        self.stmt_fault = None  # callable(stmt_no, query) -> exception or None
        self.proc_exceptions = []
        self.stats = {}
        self.take_temp = False
        self.snapshots_enabled = True
        self.build_no = 0
        self.hash_faults = {}
        self.tick_crash = None
        self.reports = []
        self.job_created = {}
        self.jobs_alive = []
        self.rpc_seq = 0
        self.task_request = {}
        self.hash_fault_hook = None
        self.serve_config = None
        self.pending_capture = None
        self.fs_listeners = []
        self.task_txn = {}

    def hash_fault_for(self, worker):
        if self.hash_fault_hook is None:
            return None
        return self.hash_fault_hook(worker)

    # -- small services ---------------------------------------------------------------------
    def vtime(self):
        return self.loop.time() if self.loop is not None else self.clock

    def next_cookie(self):
        self._cookie += 1
        return self._cookie

    def next_pid(self):
        self._pid += 1
        return self._pid

    def log_event(self, kind, *payload):
        self.log.append((len(self.log), round(self.vtime(), 6), kind, *payload))

    def fingerprint(self, start=0) -> str:
        h = hashlib.sha256()
        for ev in self.log[start:]:
            h.update(repr(ev).encode())
        return h.hexdigest()[:24]

    def count(self, key, n=1):
        self.stats[key] = self.stats.get(key, 0) + n

    def note_proc_exception(self, proc, exc, tb):
        self.proc_exceptions.append((proc.label, type(exc).__name__, str(exc), tb))

    def fs_actor(self):
        if self.fs_actor_override is not None:
            return self.fs_actor_override
        if self.running_proc is not None:
            return f"step:{self.running_proc.pid}"
        return "director"

    # -- baton support ------------------------------------------------------------------------
    def swap_in(self, proc):
        from stepup.core import api as su_api

        saved = (os.getcwd(), os.environ, su_api._AMEND_HISTORY, su_api._HOLD_STATE)
        os.chdir(proc.cwd)
        os.environ = proc.env
        su_api._AMEND_HISTORY = proc.amend_history
        su_api._HOLD_STATE = proc.hold_state
        return saved

    def swap_out(self, proc, saved):
        from stepup.core import api as su_api

        try:
            proc.cwd = os.getcwd()
        except OSError:
            pass
        os.chdir(saved[0])
        os.environ = saved[1]
        su_api._AMEND_HISTORY = saved[2]
        su_api._HOLD_STATE = saved[3]

    # -- inotify routing ------------------------------------------------------------------------
    def emit_inotify(self, dir_ap, name, mask, cookie=0):
        if not self.inotifies:
            return
        try:
            ino = os.stat(dir_ap).st_ino
        except OSError:
            return
        for ino_obj in list(self.inotifies):
            ino_obj.emit(ino, name, mask, cookie)

    def inotify_dir_deleted(self, ino):
        for ino_obj in list(self.inotifies):
            ino_obj.dir_deleted(ino)

    def inotify_dir_moved(self, ino):
        for ino_obj in list(self.inotifies):
            ino_obj.dir_moved(ino)

    def inotify_pending(self):
        return sum(i.pending() for i in self.inotifies)

    # -- hooks called from seams ----------------------------------------------------------------
    def on_fsop(self, n, actor, op, relpath):
        if self.crash_hook is not None:
            self.crash_hook("fsop", n, (actor, op, relpath))

    def on_commit_pre(self, db):
        """Inside the committing transaction, right before COMMIT."""
        self.commit_no += 1
        if not self.snapshots_enabled and not self.monitors:
            return None
        con = db._held.con
        snap = take_snapshot(con, with_temp=self.take_temp)
        return snap

    def on_commit_post(self, db, snap, rolled_back, exc):
        task = asyncio.current_task()
        tname = task.get_name() if task is not None else "?"
        if tname.startswith("Task-"):
            tname = "task"
        info = {"task": tname, "rolled_back": rolled_back}
        if task is not None:
            info["task_id"] = id(task)
        if rolled_back:
            self.log_event("rollback", tname, type(exc).__name__ if exc else None)
            after = None
            if self.monitors and db._con is not None:
                try:
                    after = take_snapshot(db._con, with_temp=False)
                except Exception:  # noqa: BLE001
                    after = None
            info["after"] = after
            if task is not None and id(task) in self.task_txn:
                self.task_txn[id(task)].append(("rollback", self.prev_snap, after))
            for m in self.monitors:
                m.on_rollback(self, info, exc)
            return
        self.log_event("commit", self.commit_no, tname, snap.digest() if snap else None)
        if task is not None and snap is not None and id(task) in self.task_txn:
            self.task_txn[id(task)].append(("commit", self.prev_snap, snap))
        if snap is not None:
            prev = self.prev_snap
            for m in self.monitors:
                m.on_commit(self, prev, snap, info)
            self.prev_snap = snap
        if self.crash_hook is not None:
            self.crash_hook("commit", self.commit_no, info)

    # -- running a director -----------------------------------------------------------------------
    def run(self, main_factory, max_ticks=60_000, max_vtime=50_000.0) -> BuildResult:
        """Run `await main_factory(world)` on a fresh virtual loop inside this world."""
        seams.install()
        res = BuildResult()
        res.log_start = len(self.log)
        loop = vloop.VirtualLoop(start=self.clock, max_ticks=max_ticks, max_vtime=max_vtime)
        self.loop = loop
        self.build_no += 1
        commits0 = self.commit_no
        prev_world = World.current
        World.current = self
        saved_cwd = os.getcwd()
        saved_env = os.environ
        os.chdir(self.root)
        os.environ = dict(self.env)
        cap = ErrorCapture()
        su_logger = logging.getLogger("stepup")
        su_logger.addHandler(cap)
        as_logger = logging.getLogger("asyncio")
        as_logger.addHandler(cap)
        if self.tick_crash is not None:
            loop.tick_hook = self._tick_hook
        try:
            try:
                res.returncode = vloop.run(main_factory(self), loop)
            except vloop.SimHang as exc:
                res.hang = exc
            except vloop.SimAbort as exc:
                res.aborted = str(exc)
            except vloop.SeamMissed as exc:
                res.harness_error = exc
            except seams.CrashNow as exc:
                res.exception = exc
            except Exception as exc:  # noqa: BLE001
                res.exception = exc
        finally:
            self._teardown()
            res.ticks = loop.ticks
            res.vtime = loop.time() - self.clock
            self.clock = loop.time() + 10.0
            try:
                if not loop.is_closed():
                    loop.close()
            except Exception:  # noqa: BLE001
                pass
            self.loop = None
            self.net = None
            self.db = None
            self.handler = None
            su_logger.removeHandler(cap)
            as_logger.removeHandler(cap)
            os.chdir(saved_cwd)
            os.environ = saved_env
            World.current = prev_world
        res.log_end = len(self.log)
        res.ncommits = self.commit_no - commits0
        res.error_records = cap.records
        for m in self.monitors:
            m.on_build_end(self, res)
        return res

    def request_abort(self, reason):
        """Stop this world at the next tick.

        For states after which the real code does not terminate in real time (a committed
        dependency cycle makes the scheduler's recursive queries spin): the violation is
        already recorded, the rest of the run could only end in the worker watchdog.
        """
        if self.loop is not None and self.loop.abort_reason is None:
            self.loop.abort_reason = reason

    def _tick_hook(self, loop):
        if self.crash_hook is not None:
            self.crash_hook("tick", loop.ticks, None)

    def _teardown(self):
        for proc in sorted(self.procs, key=lambda p: p.pid):
            try:
                proc.force_finish()
            except Exception:  # noqa: BLE001
                pass
        self.procs.clear()
        self.running_proc = None
        for ino in list(self.inotifies):
            ino._closed = True
        self.inotifies.clear()

    # -- copies (crash points, twin universes) ----------------------------------------------------
    def copy_tree(self, dest):
        shutil.copytree(self.root, dest, symlinks=True, copy_function=shutil.copy2)
        return dest


async def director_main(world, cfg: dict, user=None):
    """Open the database like `director.main` does and run the real `serve()`."""
    from stepup.core.constants import GRAPH_DB, STEPUP_DIR
    from stepup.core.director import ServeConfig, serve
    from stepup.core.reporter import ReporterClient
    from stepup.core.sqlite3 import DBSession

    loop = asyncio.get_running_loop()
    world.net = SimNet(loop, world.chooser, max_latency_ms=world.chooser.profile.get("net.maxlat", (30,))[0])
    STEPUP_DIR.makedirs_p()
    reporter = ReporterClient(seams.RecordingReporter(world))
    config = ServeConfig(**cfg)
    world.log_event("build_start", world.build_no, repr(sorted(cfg.items())))
    user_task = None
    with DBSession.open(GRAPH_DB) as db:
        world.db = db
        world.prev_snap = None
        serve_task = asyncio.create_task(
            serve(
                config,
                director_socket_path=Path(SOCKET_PATH),
                reporter=reporter,
                db=db,
                handle_signals=False,
            ),
            name="serve",
        )
        if user is not None:
            user_task = asyncio.create_task(user(world), name="user")
        try:
            result = await serve_task
        finally:
            if user_task is not None:
                if not user_task.done():
                    user_task.cancel()
                try:
                    await user_task
                except asyncio.CancelledError:
                    pass
        # flush reporter timers like ReporterClient.close() would
        try:
            await reporter.close()
        except Exception:  # noqa: BLE001
            pass
    world.log_event("build_end", world.build_no, result.returncode.value)
    return result.returncode
